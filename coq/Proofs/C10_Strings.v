(* C10_Strings.v — what the printer writes for a string operand, the lexer reads back as that
   string: for every string of characters (any codes >= 0), in any context, with no warning. *)
From Coq Require Import ZArith List Bool Lia Arith.
From Hera.Model Require Import Lexer Printer.
From Hera.Proofs Require Import C07_Lexer.
Import ListNotations.
Open Scope Z_scope.

Lemma hexval_hexdigit n : 0 <= n < 16 -> hexval (hexdigit n) = n /\ is_hex (hexdigit n) = true.
Proof.
  intros H. assert (C : n = 0 \/ n = 1 \/ n = 2 \/ n = 3 \/ n = 4 \/ n = 5 \/ n = 6 \/ n = 7 \/ n = 8 \/ n = 9 \/
                        n = 10 \/ n = 11 \/ n = 12 \/ n = 13 \/ n = 14 \/ n = 15) by lia.
  repeat (destruct C as [->|C]; [split; reflexivity|]). subst n. split; reflexivity.
Qed.

(* the state after moving n characters into a known prefix *)
Lemma adv_rest_app n s pre post : rest s = pre ++ post -> List.length pre = n -> rest (adv n s) = post.
Proof.
  intros E L. destruct (adv_rest n s) as (R & _); [rewrite E, app_length; lia|].
  rewrite R, E. subst n. rewrite skipn_app, skipn_all, Nat.sub_diag. reflexivity.
Qed.

Lemma next_rest s c r : rest s = c :: r -> rest (next_char s) = r.
Proof. intros E. exact (proj1 (rest_next s c r E)). Qed.

(* one printed character is read back as that character *)
Lemma delimited_step f s acc ws c post : 0 <= c ->
  rest s = lit_char c ++ post ->
  exists s', rest s' = post /\ delimited (S f) 34 s acc ws = delimited f 34 s' (acc ++ [c]) ws.
Proof.
  intros Hc E. unfold lit_char in E.
  destruct (c =? 34) eqn:E34.
  { apply Z.eqb_eq in E34. subst c. cbn [app] in E.
    exists (adv 1 (next_char s)). split.
    - eapply (adv_rest_app 1 _ [34] post); [|reflexivity]. rewrite (next_rest s _ _ E). reflexivity.
    - cbn [delimited]. rewrite E. cbn [Z.eqb Pos.eqb andb orb].
      unfold read_escape, peek. rewrite E. cbn. reflexivity. }
  destruct (c =? 92) eqn:E92.
  { apply Z.eqb_eq in E92. subst c. cbn [app] in E.
    exists (adv 1 (next_char s)). split.
    - eapply (adv_rest_app 1 _ [92] post); [|reflexivity]. rewrite (next_rest s _ _ E). reflexivity.
    - cbn [delimited]. rewrite E. cbn [Z.eqb Pos.eqb].
      unfold read_escape, peek. rewrite E. cbn. reflexivity. }
  destruct (c =? 10) eqn:E10.
  { apply Z.eqb_eq in E10. subst c. cbn [app] in E.
    exists (adv 1 (next_char s)). split.
    - eapply (adv_rest_app 1 _ [110] post); [|reflexivity]. rewrite (next_rest s _ _ E). reflexivity.
    - cbn [delimited]. rewrite E. cbn [Z.eqb Pos.eqb].
      unfold read_escape, peek. rewrite E. cbn. reflexivity. }
  destruct (c =? 9) eqn:E9.
  { apply Z.eqb_eq in E9. subst c. cbn [app] in E.
    exists (adv 1 (next_char s)). split.
    - eapply (adv_rest_app 1 _ [116] post); [|reflexivity]. rewrite (next_rest s _ _ E). reflexivity.
    - cbn [delimited]. rewrite E. cbn [Z.eqb Pos.eqb].
      unfold read_escape, peek. rewrite E. cbn. reflexivity. }
  destruct ((32 <=? c) && (c <? 127)) eqn:Epr.
  { cbn [app] in E. exists (next_char s). split; [exact (next_rest s _ _ E)|].
    cbn [delimited]. rewrite E. rewrite E34, E92. reflexivity. }
  destruct (c <? 256) eqn:E256.
  { cbn [app] in E.
    assert (Hh : 0 <= c / 16 < 16) by (split; [apply Z.div_pos; lia|apply Z.div_lt_upper_bound; lia]).
    assert (Hl : 0 <= c mod 16 < 16) by (apply Z.mod_pos_bound; lia).
    destruct (hexval_hexdigit _ Hh) as [V1 X1]. destruct (hexval_hexdigit _ Hl) as [V2 X2].
    exists (adv 3 (next_char s)). split.
    - eapply (adv_rest_app 3 _ [120; hexdigit (c / 16); hexdigit (c mod 16)] post); [|reflexivity].
      rewrite (next_rest s _ _ E). reflexivity.
    - cbn [delimited]. rewrite E. cbn [Z.eqb Pos.eqb].
      unfold read_escape, peek. rewrite E. cbn [nth_error]. cbn [Z.eqb Pos.eqb].
      rewrite X1, X2, V1, V2. cbn [andb Z.eqb]. 
      replace (16 * (c / 16) + c mod 16) with c by (pose proof (Z.div_mod c 16 ltac:(lia)); lia).
      reflexivity. }
  destruct (c <? 512) eqn:E512.
  { cbn [app] in E.
    assert (R : 256 <= c < 512) by lia.
    set (a := c / 64) in *. set (b := (c / 8) mod 8) in *. set (d := c mod 8) in *.
    assert (Ha : 4 <= a < 8) by (unfold a; split; [apply Z.div_le_lower_bound; lia|apply Z.div_lt_upper_bound; lia]).
    assert (Hb : 0 <= b < 8) by (apply Z.mod_pos_bound; lia).
    assert (Hd : 0 <= d < 8) by (apply Z.mod_pos_bound; lia).
    assert (Val : 8 * (8 * (8 * 0 + a) + b) + d = c).
    { unfold a, b, d. pose proof (Z.div_mod c 8 ltac:(lia)). pose proof (Z.div_mod (c / 8) 8 ltac:(lia)).
      assert (Q : c / 64 = c / 8 / 8) by (rewrite Z.div_div by lia; reflexivity). lia. }
    exists (adv 3 (next_char s)). split.
    - eapply (adv_rest_app 3 _ [48 + a; 48 + b; 48 + d] post); [|reflexivity].
      rewrite (next_rest s _ _ E). reflexivity.
    - cbn [delimited]. rewrite E. cbn [Z.eqb Pos.eqb].
      unfold read_escape, peek. rewrite E. cbn [nth_error skipn].
      assert (N120 : (48 + a =? 120) = false) by lia. rewrite N120.
      assert (Dg : forall x, 0 <= x < 8 -> is_digit (48 + x) = true /\ ((48 <=? 48 + x) && (48 + x <=? 55)) = true)
        by (intros x Hx; unfold is_digit; split; lia).
      destruct (Dg a ltac:(lia)) as [Da Oa]. destruct (Dg b Hb) as [Db Ob]. destruct (Dg d Hd) as [Dd Od].
      rewrite Da. cbn [count_while]. rewrite Da, Db, Dd.
      assert (M : forall k, Nat.min 3 (S (S (S k))) = 3%nat) by (intros; lia). rewrite M.
      cbn [firstn octval]. rewrite Oa, Ob, Od.
      replace (48 + a - 48) with a by lia. replace (48 + b - 48) with b by lia. replace (48 + d - 48) with d by lia.
      rewrite Val. reflexivity. }
  { cbn [app] in E. exists (next_char s). split; [exact (next_rest s _ _ E)|].
    cbn [delimited]. rewrite E. rewrite E34, E92. reflexivity. }
Qed.

Lemma delimited_printed v : forall fuel s acc ws post, Forall (fun c => 0 <= c) v ->
  (List.length v < fuel)%nat ->
  rest s = flat_map lit_char v ++ 34 :: post ->
  exists s', rest s' = 34 :: post /\ delimited fuel 34 s acc ws = (acc ++ v, s', ws).
Proof.
  induction v as [|c t IH]; intros fuel s acc ws post Hv Hf E.
  - exists s. split; [exact E|]. destruct fuel as [|f]; [cbn in Hf; lia|].
    cbn [delimited]. cbn [flat_map app] in E. rewrite E. rewrite app_nil_r. reflexivity.
  - destruct fuel as [|f]; [cbn in Hf; lia|].
    inversion Hv as [|? ? Hc Ht]; subst.
    cbn [flat_map] in E. rewrite <- app_assoc in E.
    destruct (delimited_step f s acc ws c _ Hc E) as (s1 & R1 & D1).
    destruct (IH f s1 (acc ++ [c]) ws post Ht ltac:(cbn in Hf; lia) R1) as (s' & R' & D').
    exists s'. split; [exact R'|]. rewrite D1, D'. rewrite <- app_assoc. reflexivity.
Qed.

Lemma skip_noop fuel s c r : rest s = c :: r -> is_space c = false -> (c =? 47) = false -> skip fuel s = s.
Proof.
  intros E Hs H47. destruct fuel as [|f]; [reflexivity|].
  cbn [skip]. rewrite E. cbn [count_while]. rewrite Hs. cbn [adv]. rewrite E.
  destruct r as [|b r']; [reflexivity|]. rewrite H47. reflexivity.
Qed.

(* the token the lexer produces at a printed string literal *)
Theorem printed_string_reads_back s0 v post : Forall (fun c => 0 <= c) v ->
  rest s0 = string_literal v ++ post ->
  exists s', next_token s0 = (mktok T_STRING v (line s0) (col s0) (pos s0), s', []) /\ rest s' = post.
Proof.
  intros Hv E. unfold string_literal in E. cbn [app] in E. rewrite <- app_assoc in E. cbn [app] in E.
  unfold next_token.
  assert (SK : skip (S (List.length (rest s0))) s0 = s0).
  { eapply skip_noop; [exact E|reflexivity|reflexivity]. }
  rewrite SK, E.
  cbn [is_alpha is_digit]. cbn.
  destruct (delimited_printed v (List.length (rest (next_char s0))) (next_char s0) [] [] post Hv) as (s2 & R2 & D).
  - rewrite (next_rest s0 _ _ E), app_length. rewrite flat_map_concat_map.
    assert (L : (List.length v <= List.length (concat (map lit_char v)))%nat).
    { clear. induction v as [|c t IH]; cbn; [lia|]. rewrite app_length.
      assert (1 <= List.length (lit_char c))%nat.
      { unfold lit_char. repeat match goal with |- context [if ?b then _ else _] => destruct b end; cbn; lia. }
      lia. }
    cbn [List.length]. lia.
  - exact (next_rest s0 _ _ E).
  - rewrite D, R2. cbn [app].
    exists (next_char s2). split; [reflexivity|exact (next_rest s2 _ _ R2)].
Qed.
