(* C19_StrcmpStack.v — the stack-convention tstrcmp, written in HERA assembly with a loop and two early exits. *)
From Coq Require Import ZArith List Bool Lia.
From Hera.Lib Require Import Py Machine Word16.
From Hera.Spec Require Import ISA Wf.
From Hera.Model Require Import Stdlib.
From Hera.Proofs Require Import SpecLemmas SpecCore C19_Memcpy C19_Chr C19_Strcmp.
Import ListNotations.
Open Scope Z_scope.

(* CMP(x, y) = FON(8); SUB(R0, x, y): afterwards "signed less" is S xor V *)
Lemma cmp_lt x y : 0 <= x < 65536 -> 0 <= y < 65536 ->
  xorb (32768 <=? (x - y - 0) mod 65536) (negb (fits16s (sgn16 x - sgn16 y - 0))) = (sgn16 x <? sgn16 y).
Proof.
  intros Hx Hy. unfold fits16s, sgn16.
  destruct (x <? 32768) eqn:E1; destruct (y <? 32768) eqn:E2;
    destruct (32768 <=? (x - y - 0) mod 65536) eqn:E3;
    match goal with |- context [(-32768 <=? ?a) && (?a <=? 32767)] => destruct (-32768 <=? a) eqn:E4; destruct (a <=? 32767) eqn:E5 end;
    cbn [negb xorb andb]; Z.to_euclidean_division_equations; lia.
Qed.

Definition tstrcmp_stack_code (base : Z) : list instr :=
  [I_STORE 13 0 14; I_STORE 12 1 14; I_INC 15 6; I_STORE 1 10 14; I_STORE 2 5 14; I_STORE 3 6 14; I_STORE 4 7 14;
   I_STORE 5 8 14; I_STORE 6 9 14;
   I_LOAD 1 3 14; I_LOAD 2 4 14; I_LOAD 5 0 1; I_LOAD 6 0 2;
   I_FON 8; I_SUB 0 5 6; I_BREL cBL 5;
   I_ADD 3 6 0; I_SETLO 11 ((base + 21) mod 256); I_SETHI 11 ((base + 21) / 256); I_B cBR 11;
   I_ADD 3 5 0;
   I_INC 1 1; I_INC 2 1; I_ADD 4 0 0;
   I_FON 8; I_SUB 0 4 3; I_BREL cBGE 27;
   I_ADD 5 4 1; I_LOAD 5 0 5; I_ADD 6 4 2; I_LOAD 6 0 6;
   I_FON 8; I_SUB 0 5 6; I_BREL cBGE 7;
   I_SETLO 5 255; I_SETHI 5 255; I_STORE 5 3 14;
   I_SETLO 11 ((base + 59) mod 256); I_SETHI 11 ((base + 59) / 256); I_B cBR 11;
   I_FON 8; I_SUB 0 6 5; I_BREL cBGE 7;
   I_SETLO 5 1; I_SETHI 5 0; I_STORE 5 3 14;
   I_SETLO 11 ((base + 59) mod 256); I_SETHI 11 ((base + 59) / 256); I_B cBR 11;
   I_INC 4 1; I_SETLO 11 ((base + 24) mod 256); I_SETHI 11 ((base + 24) / 256); I_B cBR 11;
   I_LOAD 1 3 14; I_LOAD 2 4 14; I_LOAD 5 0 1; I_LOAD 6 0 2; I_SUB 5 5 6; I_STORE 5 3 14;
   I_LOAD 1 10 14; I_LOAD 2 5 14; I_LOAD 3 6 14; I_LOAD 4 7 14; I_LOAD 5 8 14; I_LOAD 6 9 14;
   I_LOAD 13 0 14; I_LOAD 12 1 14; I_DEC 15 6; I_RETURN 12 13].

Lemma sgn_small x : 0 <= x < 32768 -> sgn16 x = x.
Proof. intros H. unfold sgn16. destruct (x <? 32768) eqn:E; lia. Qed.

(* ---- the loop, from its head with the index i in R4, for any remaining length k ----------------------------- *)
Lemma strcmp_loop base pa pb n : 0 <= base -> base + 68 < 65536 ->
  0 <= pa -> 0 <= pb -> 0 <= n < 32768 -> pa + 1 + n < 65536 -> pb + 1 + n < 65536 ->
  forall k i r m fS fZ fV fC,
  r 0 = 0 -> r 1 = pa + 1 -> r 2 = pb + 1 -> r 3 = n -> r 4 = Z.of_nat i -> n - Z.of_nat i = Z.of_nat k ->
  (forall j, 0 <= j < n -> 0 <= mem_read m (pa + j + 1) < 32768 /\ 0 <= mem_read m (pb + j + 1) < 32768) ->
  exists steps c', crun_at base (tstrcmp_stack_code base) steps (mkcore r m (base + 24) fS fZ fV fC true) = Some c' /\
    cr c' 14 = r 14 /\ cr c' 15 = r 15 /\ cr c' 0 = 0 /\ cCB c' = true /\ (forall j, 7 <= j <= 10 -> cr c' j = r j) /\
    match tstrcmp_go (mem_read m) pa pb k (Z.of_nat i) with
    | Some res => cpc c' = base + 59 /\ cmem c' = mem_write m ((r 14 + 3) mod 65536) res
    | None => cpc c' = base + 53 /\ cmem c' = m
    end.
Proof.
  intros Hb Hb2 Hpa Hpb Hn Ha Hbb. induction k as [|k IH]; intros i r m fS fZ fV fC R0 R1 R2 R3 R4 Hk Hch.
  - (* i = n: the test at the head fails *)
    assert (Ei : Z.of_nat i = n) by lia.
    exists 3%nat. eexists. split.
    + cgo 24%nat. cgo 25%nat. cgo 26%nat. rewrite R3, R4, Ei, (cmp_lt n n) by lia.
      rewrite Z.ltb_irrefl. cbn [negb]. reflexivity.
    + cbn [cr cpc cmem cCB tstrcmp_go]. cbn [Z.eqb Pos.eqb]. repeat split; try reflexivity; try assumption; lia.
  - (* i < n: one more pair of characters *)
    assert (Hi : Z.of_nat i < n) by lia.
    destruct (Hch (Z.of_nat i) ltac:(lia)) as [Hx Hy].
    set (x := mem_read m (pa + Z.of_nat i + 1)) in *. set (y := mem_read m (pb + Z.of_nat i + 1)) in *.
    assert (AA : (Z.of_nat i + (pa + 1) + 0) mod 65536 = pa + Z.of_nat i + 1) by (rewrite Z.mod_small; lia).
    assert (AB : (Z.of_nat i + (pb + 1) + 0) mod 65536 = pb + Z.of_nat i + 1) by (rewrite Z.mod_small; lia).
    assert (LA : (pa + Z.of_nat i + 1 + 0) mod 65536 = pa + Z.of_nat i + 1) by (rewrite Z.mod_small; lia).
    assert (LB : (pb + Z.of_nat i + 1 + 0) mod 65536 = pb + Z.of_nat i + 1) by (rewrite Z.mod_small; lia).
    eassert (E10 : crun_at base (tstrcmp_stack_code base) 9 (mkcore r m (base + 24) fS fZ fV fC true) = Some _).
    { cgo 24%nat. cgo 25%nat. cgo 26%nat. rewrite R3, R4, (cmp_lt (Z.of_nat i) n) by lia.
      rewrite !sgn_small by lia. replace (Z.of_nat i <? n) with true by lia. cbn [negb].
      cgo 27%nat. rewrite R4, R1, AA. cgo 28%nat. rewrite LA. fold x.
      cgo 29%nat. rewrite R4, R2, AB. cgo 30%nat. rewrite LB. fold y.
      cgo 31%nat. cgo 32%nat. reflexivity. }
    cbn [tstrcmp_go]. fold x y.
    match type of E10 with _ = Some ?c9 => set (c9v := c9) in * end.
    destruct (x <? y) eqn:Lxy.
    + (* x < y: return -1 *)
      eassert (E7 : crun_at base (tstrcmp_stack_code base) 7 c9v = Some _).
      { unfold c9v. cgo 33%nat. rewrite (cmp_lt x y) by lia. rewrite !sgn_small by lia. rewrite Lxy. cbn [negb].
        cgo 34%nat. cgo 35%nat. cgo 36%nat. cgo 37%nat. cgo 38%nat. cgo 39%nat.
        rewrite (set_value (base + 59)) by lia. reflexivity. }
      eexists. eexists. split; [exact (crun_app _ _ _ _ _ _ _ E10 E7)|].
      cbn [cr cpc cmem cCB]. cbn [Z.eqb Pos.eqb]. split; [reflexivity|]. split; [reflexivity|]. split; [exact R0|]. split; [reflexivity|].
      split; [intros j Hj; repeat match goal with |- context [j =? ?x] => destruct (j =? x) eqn:Ej; [exfalso; clear - Hj Ej; lia|clear Ej] end; reflexivity|]. split; reflexivity.
    + destruct (y <? x) eqn:Lyx.
      * (* y < x: return 1 *)
        eassert (E10b : crun_at base (tstrcmp_stack_code base) 10 c9v = Some _).
        { unfold c9v. cgo 33%nat. rewrite (cmp_lt x y) by lia. rewrite !sgn_small by lia. rewrite Lxy. cbn [negb].
          cgo 40%nat. cgo 41%nat. cgo 42%nat. rewrite (cmp_lt y x) by lia. rewrite !sgn_small by lia. rewrite Lyx. cbn [negb].
          cgo 43%nat. cgo 44%nat. cgo 45%nat. cgo 46%nat. cgo 47%nat. cgo 48%nat.
          rewrite (set_value (base + 59)) by lia. reflexivity. }
        eexists. eexists. split; [exact (crun_app _ _ _ _ _ _ _ E10 E10b)|].
        cbn [cr cpc cmem cCB]. cbn [Z.eqb Pos.eqb]. split; [reflexivity|]. split; [reflexivity|]. split; [exact R0|]. split; [reflexivity|].
      split; [intros j Hj; repeat match goal with |- context [j =? ?x] => destruct (j =? x) eqn:Ej; [exfalso; clear - Hj Ej; lia|clear Ej] end; reflexivity|]. split; reflexivity.
      * (* equal characters: once more round the loop *)
        eassert (E8 : crun_at base (tstrcmp_stack_code base) 8 c9v = Some _).
        { unfold c9v. cgo 33%nat. rewrite (cmp_lt x y) by lia. rewrite !sgn_small by lia. rewrite Lxy. cbn [negb].
          cgo 40%nat. cgo 41%nat. cgo 42%nat. rewrite (cmp_lt y x) by lia. rewrite !sgn_small by lia. rewrite Lyx. cbn [negb].
          cgo 49%nat. rewrite R4. replace ((Z.of_nat i + 1) mod 65536) with (Z.of_nat (S i)) by (rewrite Z.mod_small; lia).
          cgo 50%nat. cgo 51%nat. cgo 52%nat. rewrite (set_value (base + 24)) by lia. reflexivity. }
        match type of E8 with _ = Some (mkcore ?r' ?m' _ ?a ?b ?c ?d _) =>
          destruct (IH (S i) r' m' a b c d) as (st & c' & E & Q1 & Q2 & Q3 & Q4 & Q6 & Q5)
        end; cbn [Z.eqb Pos.eqb]; try assumption; try lia.
        exists (9 + 8 + st)%nat, c'. split; [exact (crun_app _ _ _ _ _ _ _ (crun_app _ _ _ _ _ _ _ E10 E8) E)|].
        cbn [Z.eqb Pos.eqb] in Q1, Q2, Q5. replace (Z.of_nat i + 1) with (Z.of_nat (S i)) by lia.
        split; [exact Q1|]. split; [exact Q2|]. split; [exact Q3|]. split; [exact Q4|]. split; [|exact Q5].
        intros j Hj. rewrite (Q6 j Hj). cbv beta.
        repeat match goal with |- context [j =? ?x] => destruct (j =? x) eqn:Ej; [exfalso; clear - Hj Ej; lia|clear Ej] end; reflexivity.
Qed.

Lemma go_ext rd1 rd2 s1 s2 : forall k i,
  (forall j, 0 <= j < Z.of_nat k -> rd1 (s1 + (i + j) + 1) = rd2 (s1 + (i + j) + 1) /\ rd1 (s2 + (i + j) + 1) = rd2 (s2 + (i + j) + 1)) ->
  tstrcmp_go rd1 s1 s2 k i = tstrcmp_go rd2 s1 s2 k i.
Proof.
  induction k as [|k IH]; intros i H; [reflexivity|]. cbn [tstrcmp_go].
  destruct (H 0 ltac:(lia)) as [A B]. rewrite Z.add_0_r in A, B. rewrite A, B.
  destruct (_ <? _); [reflexivity|]. destruct (_ <? _); [reflexivity|].
  apply IH. intros j Hj. replace (i + 1 + j) with (i + (j + 1)) by lia. apply H. lia.
Qed.

(* the common exit: the six registers, PC_ret and FP_alt are reloaded from the frame, SP is lowered, return *)
Lemma strcmp_epilogue base r2 mm fS fZ fV fC fCB : 0 <= base -> base + 68 < 65536 ->
  exists c', crun_at base (tstrcmp_stack_code base) 10 (mkcore r2 mm (base + 59) fS fZ fV fC fCB) = Some c' /\
    cmem c' = mm /\
    cr c' 1 = mem_read mm ((r2 14 + 10) mod 65536) /\ cr c' 2 = mem_read mm ((r2 14 + 5) mod 65536) /\
    cr c' 3 = mem_read mm ((r2 14 + 6) mod 65536) /\ cr c' 4 = mem_read mm ((r2 14 + 7) mod 65536) /\
    cr c' 5 = mem_read mm ((r2 14 + 8) mod 65536) /\ cr c' 6 = mem_read mm ((r2 14 + 9) mod 65536) /\
    cpc c' = mem_read mm ((r2 14 + 0) mod 65536) /\ cr c' 14 = mem_read mm ((r2 14 + 1) mod 65536) /\
    cr c' 15 = (r2 15 - 6) mod 65536 /\ (forall j, 7 <= j <= 10 -> cr c' j = r2 j).
Proof.
  intros Hb Hb2. eexists. split.
  - cgo 59%nat. cgo 60%nat. cgo 61%nat. cgo 62%nat. cgo 63%nat. cgo 64%nat. cgo 65%nat. cgo 66%nat. cgo 67%nat. cgo 68%nat.
    reflexivity.
  - cbn [cr cpc cmem]. cbn [Z.eqb Pos.eqb]. repeat split; try reflexivity.
    intros j Hj. repeat match goal with |- context [j =? ?x] => destruct (j =? x) eqn:Ej; [exfalso; clear - Hj Ej; lia|clear Ej] end; reflexivity.
Qed.

(* what the routine leaves in its result cell *)
Definition strcmp_result (rd : Z -> Z) (pa pb : Z) : Z :=
  match tstrcmp_go rd pa pb (Z.to_nat (Z.min (rd pa) (rd pb))) 0 with
  | Some r => r
  | None => (rd pa - rd pb) mod 65536
  end.

Lemma strcmp_stack_core base r m fS fZ fV fC :
  0 <= base -> base + 68 < 65536 -> r 0 = 0 ->
  0 <= r 1 < 65536 -> 0 <= r 2 < 65536 -> 0 <= r 3 < 65536 -> 0 <= r 4 < 65536 -> 0 <= r 5 < 65536 -> 0 <= r 6 < 65536 ->
  0 <= r 12 < 65536 -> 0 <= r 13 < 65536 -> 0 <= r 15 < 65536 -> wf_mem m ->
  let f := r 14 in let pa := mem_read m (f + 3) in let pb := mem_read m (f + 4) in
  let la := mem_read m pa in let lb := mem_read m pb in
  0 <= f -> f + 10 < 65536 ->
  0 <= la < 32768 -> 0 <= lb < 32768 ->
  (pa + la < f \/ f + 10 < pa) -> (pb + lb < f \/ f + 10 < pb) -> pa + la + 1 < 65536 -> pb + lb + 1 < 65536 ->
  (forall j, 0 <= j < la -> mem_read m (pa + j + 1) < 32768) -> (forall j, 0 <= j < lb -> mem_read m (pb + j + 1) < 32768) ->
  exists n c', crun_at base (tstrcmp_stack_code base) n (mkcore r m base fS fZ fV fC true) = Some c' /\
    mem_read (cmem c') (f + 3) = strcmp_result (mem_read m) pa pb /\
    cpc c' = r 13 /\ cr c' 14 = r 12 /\ cr c' 15 = r 15 /\
    (forall j, 1 <= j <= 6 -> cr c' j = r j) /\ (forall j, 7 <= j <= 10 -> cr c' j = r j) /\
    (forall b, 0 <= b < 65536 -> ~ (f <= b <= f + 10) -> mem_read (cmem c') b = mem_read m b).
Proof.
  intros Hb Hb2 R0 W1 W2 W3 W4 W5 W6 W12 W13 W15 WM f pa pb la lb HF HF2 Hla Hlb Da Db Na Nb Ca Cb.
  assert (Wpa : 0 <= pa < 65536) by (apply (mr_word m (f + 3) WM)).
  assert (Wpb : 0 <= pb < 65536) by (apply (mr_word m (f + 4) WM)).
  Ltac dq2 := repeat match goal with
                    | H : crun_at _ _ _ _ = _ |- _ => clear H
                    | H : _ mod _ = _ |- _ => clear H
                    end; lia.
  assert (MF : forall k, 0 <= k <= 10 -> (f + k) mod 65536 = f + k) by (intros k Hk; apply Z.mod_small; lia).
  set (m1 := mem_write m (f + 0) (r 13)). set (m2 := mem_write m1 (f + 1) (r 12)). set (m3 := mem_write m2 (f + 10) (r 1)).
  set (m4 := mem_write m3 (f + 5) (r 2)). set (m5 := mem_write m4 (f + 6) (r 3)). set (m6 := mem_write m5 (f + 7) (r 4)).
  set (m7 := mem_write m6 (f + 8) (r 5)). set (m8 := mem_write m7 (f + 9) (r 6)).
  assert (V1 : wf_mem m1) by (apply wf_mw; [exact WM|dq2|exact W13]).
  assert (V2 : wf_mem m2) by (apply wf_mw; [exact V1|dq2|exact W12]).
  assert (V3 : wf_mem m3) by (apply wf_mw; [exact V2|dq2|exact W1]).
  assert (V4 : wf_mem m4) by (apply wf_mw; [exact V3|dq2|exact W2]).
  assert (V5 : wf_mem m5) by (apply wf_mw; [exact V4|dq2|exact W3]).
  assert (V6 : wf_mem m6) by (apply wf_mw; [exact V5|dq2|exact W4]).
  assert (V7 : wf_mem m7) by (apply wf_mw; [exact V6|dq2|exact W5]).
  assert (V8 : wf_mem m8) by (apply wf_mw; [exact V7|dq2|exact W6]).
  (* a cell none of the eight stores touched *)
  assert (R8 : forall b, 0 <= b < 65536 -> b <> f + 0 -> b <> f + 1 -> b <> f + 10 -> b <> f + 5 -> b <> f + 6 ->
               b <> f + 7 -> b <> f + 8 -> b <> f + 9 -> mem_read m8 b = mem_read m b).
  { intros b Hb0 N0 N1 N10 N5 N6 N7 N8 N9.
    unfold m8. rewrite (mro m7 (f + 9) b) by (first [assumption|dq2]).
    unfold m7. rewrite (mro m6 (f + 8) b) by (first [assumption|dq2]).
    unfold m6. rewrite (mro m5 (f + 7) b) by (first [assumption|dq2]).
    unfold m5. rewrite (mro m4 (f + 6) b) by (first [assumption|dq2]).
    unfold m4. rewrite (mro m3 (f + 5) b) by (first [assumption|dq2]).
    unfold m3. rewrite (mro m2 (f + 10) b) by (first [assumption|dq2]).
    unfold m2. rewrite (mro m1 (f + 1) b) by (first [assumption|dq2]).
    unfold m1. apply (mro m (f + 0) b); first [assumption|dq2]. }
  assert (R8' : forall b, 0 <= b < 65536 -> ~ (f <= b <= f + 10) -> mem_read m8 b = mem_read m b).
  { intros b Hb0 Nb0. apply R8; [exact Hb0|clear - Nb0; lia..]. }
  assert (Gpa : mem_read m8 (f + 3) = pa) by (apply R8; dq2).
  assert (Gpb : mem_read m8 (f + 4) = pb) by (apply R8; dq2).
  assert (Gla : mem_read m8 pa = la) by (apply R8; dq2).
  assert (Glb : mem_read m8 pb = lb) by (apply R8; dq2).
  set (n := Z.min la lb).
  assert (Hn : 0 <= n < 32768) by (unfold n; lia).
  assert (MS6 : (r 15 + 6) mod 65536 = (r 15 + 6) mod 65536) by reflexivity.
  (* the prologue: registers saved, the two addresses and the two lengths loaded *)
  eassert (E13 : crun_at base (tstrcmp_stack_code base) 13 (mkcore r m base fS fZ fV fC true) = Some _).
  { clear - Hb Hb2 MF Gpa Gpb Gla Glb Wpa Wpb.
    cgo 0%nat. cgo 1%nat. cgo 2%nat. cgo 3%nat. cgo 4%nat. cgo 5%nat. cgo 6%nat. cgo 7%nat. cgo 8%nat.
    fold f. rewrite !MF by lia. fold m1 m2 m3 m4 m5 m6 m7 m8.
    cgo 9%nat. fold f. rewrite (MF 3) by lia. rewrite Gpa. cgo 10%nat. fold f. rewrite (MF 4) by lia. rewrite Gpb.
    cgo 11%nat. rewrite (wmod pa) by lia. rewrite Gla. cgo 12%nat. rewrite (wmod pb) by lia. rewrite Glb. reflexivity. }
  match type of E13 with _ = Some ?c => set (c13 := c) in * end.
  (* R3 := the smaller length, both pointers advanced to the first character, R4 := 0 *)
  assert (EH : exists st r' gS gZ gV gC,
            crun_at base (tstrcmp_stack_code base) st c13 = Some (mkcore r' m8 (base + 24) gS gZ gV gC true) /\
            r' 0 = 0 /\ r' 1 = pa + 1 /\ r' 2 = pb + 1 /\ r' 3 = n /\ r' 4 = 0 /\ r' 14 = f /\ r' 15 = (r 15 + 6) mod 65536 /\
            (forall j, 7 <= j <= 10 -> r' j = r j)).
  { destruct (la <? lb) eqn:L.
    - exists 7%nat. do 5 eexists. split.
      + unfold c13. cgo 13%nat. cgo 14%nat. cgo 15%nat. rewrite (cmp_lt la lb) by lia. rewrite !sgn_small by lia. rewrite L.
        cgo 20%nat. cgo 21%nat. cgo 22%nat. cgo 23%nat. match goal with |- crun_at _ _ 0 (mkcore _ _ ?p _ _ _ _ _) = _ => replace p with (base + 24) by lia end. reflexivity.
      + cbn [Z.eqb Pos.eqb]. rewrite R0. unfold n. rewrite !Z.add_0_r, !Z.mod_small by lia.
        repeat split; try reflexivity; try lia.
        intros j Hj. repeat match goal with |- context [j =? ?x] => destruct (j =? x) eqn:Ej; [exfalso; clear - Hj Ej; lia|clear Ej] end; reflexivity.
    - exists 10%nat. do 5 eexists. split.
      + unfold c13. cgo 13%nat. cgo 14%nat. cgo 15%nat. rewrite (cmp_lt la lb) by lia. rewrite !sgn_small by lia. rewrite L.
        cgo 16%nat. cgo 17%nat. cgo 18%nat. cgo 19%nat. rewrite (set_value (base + 21)) by lia.
        cgo 21%nat. cgo 22%nat. cgo 23%nat. match goal with |- crun_at _ _ 0 (mkcore _ _ ?p _ _ _ _ _) = _ => replace p with (base + 24) by lia end. reflexivity.
      + cbn [Z.eqb Pos.eqb]. rewrite R0. unfold n. rewrite !Z.add_0_r, !Z.mod_small by lia.
        repeat split; try reflexivity; try lia.
        intros j Hj. repeat match goal with |- context [j =? ?x] => destruct (j =? x) eqn:Ej; [exfalso; clear - Hj Ej; lia|clear Ej] end; reflexivity. }
  destruct EH as (st1 & r' & gS & gZ & gV & gC & EH & H0 & H1 & H2 & H3 & H4 & H14 & H15 & H710).
  clearbody c13.
  assert (InA : forall j, 0 <= j < n -> 0 <= pa + j + 1 < 65536 /\ ~ (f <= pa + j + 1 <= f + 10)) by (intros j Hj; unfold n in Hj; clear - Hj Da Na Wpa Hla Hlb; lia).
  assert (InB : forall j, 0 <= j < n -> 0 <= pb + j + 1 < 65536 /\ ~ (f <= pb + j + 1 <= f + 10)) by (intros j Hj; unfold n in Hj; clear - Hj Db Nb Wpb Hla Hlb; lia).
  (* the loop *)
  assert (CH : forall j, 0 <= j < n -> 0 <= mem_read m8 (pa + j + 1) < 32768 /\ 0 <= mem_read m8 (pb + j + 1) < 32768).
  { intros j Hj. destruct (InA j Hj) as [A1 A2]. destruct (InB j Hj) as [B1 B2].
    rewrite (R8' _ A1 A2), (R8' _ B1 B2).
    split; (split; [apply mr_word, WM|]); [apply Ca|apply Cb]; unfold n in Hj; clear - Hj Hla Hlb; lia. }
  destruct (strcmp_loop base pa pb n Hb Hb2 (proj1 Wpa) (proj1 Wpb) Hn ltac:(unfold n; clear - Na Hla Hlb; lia) ltac:(unfold n; clear - Nb Hla Hlb; lia)
              (Z.to_nat n) 0%nat r' m8 gS gZ gV gC H0 H1 H2 H3 H4 ltac:(clear - Hn; lia) CH)
    as (st2 & c2 & E2 & Q14 & Q15 & Q0 & QCB & Q710 & QM).
  assert (GE : tstrcmp_go (mem_read m8) pa pb (Z.to_nat n) (Z.of_nat 0) = tstrcmp_go (mem_read m) pa pb (Z.to_nat n) 0).
  { apply go_ext. intros j Hj. cbn [Z.of_nat Z.add]. assert (Hj' : 0 <= j < n) by (clear - Hj Hn; lia).
    destruct (InA j Hj') as [A1 A2]. destruct (InB j Hj') as [B1 B2].
    rewrite (R8' _ A1 A2), (R8' _ B1 B2). split; reflexivity. }
  rewrite GE in QM. rewrite H14 in Q14, QM. rewrite H15 in Q15. rewrite (MF 3) in QM by lia.
  (* what the frame holds *)
  Ltac peel mx := unfold mx; rewrite mro by (first [assumption|dq2]).
  assert (X9 : mem_read m8 (f + 9) = r 6) by (unfold m8; apply mrw_same; dq2).
  assert (X8 : mem_read m8 (f + 8) = r 5) by (peel m8; unfold m7; apply mrw_same; dq2).
  assert (X7 : mem_read m8 (f + 7) = r 4) by (peel m8; peel m7; unfold m6; apply mrw_same; dq2).
  assert (X6 : mem_read m8 (f + 6) = r 3) by (peel m8; peel m7; peel m6; unfold m5; apply mrw_same; dq2).
  assert (X5 : mem_read m8 (f + 5) = r 2) by (peel m8; peel m7; peel m6; peel m5; unfold m4; apply mrw_same; dq2).
  assert (X10 : mem_read m8 (f + 10) = r 1) by (peel m8; peel m7; peel m6; peel m5; peel m4; unfold m3; apply mrw_same; dq2).
  assert (X1 : mem_read m8 (f + 1) = r 12) by (peel m8; peel m7; peel m6; peel m5; peel m4; peel m3; unfold m2; apply mrw_same; dq2).
  assert (X0 : mem_read m8 (f + 0) = r 13) by (peel m8; peel m7; peel m6; peel m5; peel m4; peel m3; peel m2; unfold m1; apply mrw_same; dq2).
  destruct c2 as [r2 mm p2 hS hZ hV hC hCB]. cbn [cr cmem cpc cCB] in *. subst hCB.
  assert (S15 : ((r 15 + 6) mod 65536 - 6) mod 65536 = r 15) by (clear - W15; lia).
  unfold strcmp_result. fold la lb n.
  assert (FIN : forall res hS' hZ' hV' hC' r3 st3,
            crun_at base (tstrcmp_stack_code base) st3 (mkcore r2 mm p2 hS hZ hV hC true)
              = Some (mkcore r3 (mem_write m8 (f + 3) res) (base + 59) hS' hZ' hV' hC' true) ->
            r3 14 = f -> r3 15 = (r 15 + 6) mod 65536 -> (forall j, 7 <= j <= 10 -> r3 j = r j) -> 0 <= res < 65536 ->
            exists n0 c', crun_at base (tstrcmp_stack_code base) n0 (mkcore r m base fS fZ fV fC true) = Some c' /\
              mem_read (cmem c') (f + 3) = res /\ cpc c' = r 13 /\ cr c' 14 = r 12 /\ cr c' 15 = r 15 /\
              (forall j, 1 <= j <= 6 -> cr c' j = r j) /\ (forall j, 7 <= j <= 10 -> cr c' j = r j) /\
              (forall b, 0 <= b < 65536 -> ~ (f <= b <= f + 10) -> mem_read (cmem c') b = mem_read m b)).
  { intros res hS' hZ' hV' hC' r3 st3 E3 T14 T15 T710 Wres.
    destruct (strcmp_epilogue base r3 (mem_write m8 (f + 3) res) hS' hZ' hV' hC' true Hb Hb2)
      as (c' & E4 & P0 & P1 & P2 & P3 & P4 & P5 & P6 & P7 & P8 & P9 & P10).
    rewrite T14 in *. rewrite !MF in * by (clear; lia). rewrite T15, S15 in P9.
    assert (V9 : wf_mem (mem_write m8 (f + 3) res)) by (apply wf_mw; [exact V8|clear - HF HF2; lia|exact Wres]).
    assert (Y : forall k, 0 <= k <= 10 -> k <> 3 -> mem_read (mem_write m8 (f + 3) res) (f + k) = mem_read m8 (f + k)).
    { intros k Hk Nk. apply mro; [clear - HF HF2; lia|clear - HF HF2 Hk; lia|clear - Nk; lia|exact V8]. }
    rewrite Y in P1, P2, P3, P4, P5, P6, P7, P8 by (clear; lia).
    rewrite X10 in P1. rewrite X5 in P2. rewrite X6 in P3. rewrite X7 in P4. rewrite X8 in P5. rewrite X9 in P6.
    rewrite X0 in P7. rewrite X1 in P8.
    exists (13 + st1 + st2 + st3 + 10)%nat, c'. split.
    { exact (crun_app _ _ _ _ _ _ _ (crun_app _ _ _ _ _ _ _ (crun_app _ _ _ _ _ _ _ (crun_app _ _ _ _ _ _ _ E13 EH) E2) E3) E4). }
    rewrite P0. split; [apply mrw_same; clear - HF; lia|].
    split; [exact P7|]. split; [exact P8|]. split; [exact P9|]. split.
    { intros j Hj. assert (C6 : j = 1 \/ j = 2 \/ j = 3 \/ j = 4 \/ j = 5 \/ j = 6) by (clear - Hj; lia).
      destruct C6 as [->|[->|[->|[->|[->| ->]]]]]; assumption. }
    split. { intros j Hj. rewrite (P10 j Hj). apply T710, Hj. }
    intros b Hb0 Nb0. rewrite mro by (first [exact V8 | clear - HF HF2 Hb0 Nb0; lia]). apply R8'; assumption. }
  destruct (tstrcmp_go (mem_read m) pa pb (Z.to_nat n) 0) as [res|] eqn:G.
  - (* decided inside the loop *)
    destruct QM as [-> ->].
    assert (Wres : 0 <= res < 65536).
    { clear - G. revert G. generalize 0 at 1. induction (Z.to_nat n) as [|k IHk]; intros i G; cbn [tstrcmp_go] in G; [discriminate G|].
      destruct (_ <? _); [injection G as <-; lia|]. destruct (_ <? _); [injection G as <-; lia|]. exact (IHk _ G). }
    apply (FIN res hS hZ hV hC r2 0%nat); [reflexivity|exact Q14|exact Q15| |exact Wres].
    intros j Hj. rewrite (Q710 j Hj). apply H710, Hj.
  - (* the common prefix is equal: the difference of the lengths *)
    destruct QM as [-> ->].
    eassert (E6 : crun_at base (tstrcmp_stack_code base) 6 (mkcore r2 m8 (base + 53) hS hZ hV hC true) = Some _).
    { clear - Hb Hb2 Q14 MF Gpa Gpb Gla Glb Wpa Wpb.
      cgo 53%nat. rewrite Q14, (MF 3) by lia. rewrite Gpa. cgo 54%nat. rewrite Q14, (MF 4) by lia. rewrite Gpb.
      cgo 55%nat. rewrite (wmod pa) by lia. rewrite Gla. cgo 56%nat. rewrite (wmod pb) by lia. rewrite Glb.
      cgo 57%nat. cgo 58%nat. rewrite Q14, (MF 3) by lia. rewrite Z.sub_0_r.
      match goal with |- crun_at _ _ 0 (mkcore _ _ ?p _ _ _ _ _) = _ => replace p with (base + 59) by lia end. reflexivity. }
    match type of E6 with _ = Some (mkcore ?r3 _ _ ?a ?b ?c ?d _) => apply (FIN ((la - lb) mod 65536) a b c d r3 6%nat E6) end;
      cbn [Z.eqb Pos.eqb]; try assumption.
    + intros j Hj. repeat match goal with |- context [j =? ?x] => destruct (j =? x) eqn:Ej; [exfalso; clear - Hj Ej; lia|clear Ej] end.
      rewrite (Q710 j Hj). apply H710, Hj.
    + apply Z.mod_pos_bound. clear; lia.
Qed.

(* ---- the result has the sign of the lexicographic comparison ------------------------------------------------- *)
Definition sign_of (w : Z) : comparison := if w =? 0 then Eq else if 32768 <=? w then Lt else Gt.

Theorem strcmp_result_sign rd pa pb : 0 <= rd pa < 32768 -> 0 <= rd pb < 32768 ->
  sign_of (strcmp_result rd pa pb) = lex (chars rd pa) (chars rd pb).
Proof.
  intros Ha Hb. unfold strcmp_result, chars.
  rewrite (lex_split (fun i => rd (pa + Z.of_nat i + 1)) (fun i => rd (pb + Z.of_nat i + 1))).
  change 0 with (Z.of_nat 0) at 1. rewrite (go_lex rd pa pb _ 0%nat). unfold chars_from.
  replace (Z.to_nat (Z.min (rd pa) (rd pb))) with (Nat.min (Z.to_nat (rd pa)) (Z.to_nat (rd pb))) by lia.
  destruct (lex _ _); try reflexivity.
  unfold sign_of. destruct (rd pa ?= rd pb) eqn:C.
  - apply Z.compare_eq in C. rewrite C, Z.sub_diag. cbn. rewrite Nat.compare_refl. reflexivity.
  - rewrite Z.compare_lt_iff in C. replace ((rd pa - rd pb) mod 65536) with (rd pa - rd pb + 65536) by (clear - C Ha Hb; lia).
    destruct (rd pa - rd pb + 65536 =? 0) eqn:E1; [lia|]. destruct (32768 <=? rd pa - rd pb + 65536) eqn:E2; [|lia].
    symmetry. apply Nat.compare_lt_iff. lia.
  - rewrite Z.compare_gt_iff in C. rewrite Z.mod_small by lia.
    destruct (rd pa - rd pb =? 0) eqn:E1; [lia|]. destruct (32768 <=? rd pa - rd pb) eqn:E2; [lia|].
    symmetry. apply Nat.compare_gt_iff. lia.
Qed.

Lemma strcmp_code_valid base : 0 <= base -> base + 68 < 65536 ->
  Forall (fun i => valid_instr i = true) (tstrcmp_stack_code base).
Proof.
  intros Hb Hb2. unfold tstrcmp_stack_code.
  destruct (lo_hi_ok (base + 21)) as [A1 B1]; [lia|]. destruct (lo_hi_ok (base + 59)) as [A2 B2]; [lia|].
  destruct (lo_hi_ok (base + 24)) as [A3 B3]; [lia|].
  repeat constructor; cbn [valid_instr reg_ok]; rewrite ?A1, ?B1, ?A2, ?B2, ?A3, ?B3; reflexivity.
Qed.

(* the routine on the specification machine itself: for every pair of strings (lengths and characters below 2^15,
   lying outside the frame), with the carry-block flag on *)
Theorem tstrcmp_stack_contract base s :
  0 <= base -> base + 68 < 65536 -> List.length (regs s) = 16%nat -> pc s = base -> getreg s 0 = 0 ->
  flag (f_cb s) = true ->
  word (getreg s 1) -> word (getreg s 2) -> word (getreg s 3) -> word (getreg s 4) -> word (getreg s 5) -> word (getreg s 6) ->
  word (getreg s 12) -> word (getreg s 13) -> word (getreg s 15) -> wf_mem (mem s) ->
  let f := getreg s 14 in let rd := mem_read (mem s) in let pa := rd (f + 3) in let pb := rd (f + 4) in
  0 <= f -> f + 10 < 65536 -> 0 <= rd pa < 32768 -> 0 <= rd pb < 32768 ->
  (pa + rd pa < f \/ f + 10 < pa) -> (pb + rd pb < f \/ f + 10 < pb) -> pa + rd pa + 1 < 65536 -> pb + rd pb + 1 < 65536 ->
  (forall j, 0 <= j < rd pa -> rd (pa + j + 1) < 32768) -> (forall j, 0 <= j < rd pb -> rd (pb + j + 1) < 32768) ->
  exists n s', run_at base (tstrcmp_stack_code base) n s = Some s' /\
    sign_of (mem_read (mem s') (f + 3)) = lex (chars rd pa) (chars rd pb) /\
    pc s' = getreg s 13 /\ getreg s' 14 = getreg s 12 /\ getreg s' 15 = getreg s 15 /\
    (forall j, 1 <= j <= 10 -> getreg s' j = getreg s j) /\
    (forall b, 0 <= b < 65536 -> ~ (f <= b <= f + 10) -> mem_read (mem s') b = mem_read (mem s) b).
Proof.
  intros Hb Hb2 L P R0 CB W1 W2 W3 W4 W5 W6 W12 W13 W15 WM f rd pa pb HF HF2 Hla Hlb Da Db Na Nb Ca Cb.
  destruct (strcmp_stack_core base (getreg s) (mem s) (flag (f_s s)) (flag (f_z s)) (flag (f_v s)) (flag (f_c s))
              Hb Hb2 R0 W1 W2 W3 W4 W5 W6 W12 W13 W15 WM HF HF2 Hla Hlb Da Db Na Nb Ca Cb)
    as (n & c' & E & Q1 & Q2 & Q3 & Q4 & Q5 & Q6 & Q7).
  pose proof (sim_core_of s L) as S0. unfold core_of in S0. rewrite P, CB in S0.
  destruct (sim_run base (tstrcmp_stack_code base) (strcmp_code_valid base Hb Hb2) n s _ c' S0 E) as (s' & Rn & S').
  exists n, s'. split; [exact Rn|].
  rewrite !(sim_reg s' c' _ S') by lia. rewrite (sim_pc s' c' S'), (sim_mem s' c' S').
  subst pb pa rd f. cbv beta in *.
  split. { rewrite Q1. apply strcmp_result_sign; assumption. }
  split; [exact Q2|]. split; [exact Q3|]. split; [exact Q4|]. split; [|exact Q7].
  intros j Hj. rewrite (sim_reg s' c' j S') by lia.
  destruct (Z_le_gt_dec j 6); [apply Q5|apply Q6]; lia.
Qed.

(* the premises are satisfiable: "ab" vs "abc", "abd" vs "abc", "" vs "", by computation *)
Example tstrcmp_stack_runs_somewhere :
  let mem0 := fold_left (fun m p => mem_write m (fst p) (snd p))
                [(203, 300); (204, 310); (300, 2); (301, 97); (302, 98); (310, 3); (311, 97); (312, 98); (313, 99)] (mkmem 0 []) in
  let c0 := mkcore (fun j => if j =? 13 then 777 else if j =? 15 then 220 else if j =? 14 then 200 else if j =? 12 then 190 else 0)
                   mem0 0 false false false false true in
  exists n c', crun_at 0 (tstrcmp_stack_code 0) n c0 = Some c' /\ cpc c' = 777 /\ mem_read (cmem c') 203 = 65535 /\
               cr c' 14 = 190 /\ cr c' 15 = 220.
Proof. exists 73%nat. eexists. split; [vm_compute; reflexivity|]. repeat split. Qed.
