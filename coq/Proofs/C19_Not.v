(* C19_Not.v — the register-convention library routine `not`, placed at any address: for every
   machine state it returns 1 for 0 and 0 for anything else, returns to its caller, restores FP,
   leaves SP, memory and R2..R10 alone (R11, the scratch register, is used by the label branch). *)
From Coq Require Import ZArith List Bool Lia.
From Hera.Lib Require Import Py Machine Word16.
From Hera.Spec Require Import ISA Wf.
From Hera.Proofs Require Import SpecLemmas SpecCore.
Import ListNotations.
Open Scope Z_scope.

Definition not_reg_code (base : Z) : list instr :=
  [I_FON 8; I_SUB 0 1 0; I_BREL cBZ 6; I_SETLO 1 0; I_SETHI 1 0;
   I_SETLO 11 ((base + 10) mod 256); I_SETHI 11 ((base + 10) / 256); I_B cBR 11;
   I_SETLO 1 1; I_SETHI 1 0; I_RETURN 12 13].

Lemma not_core base r m fS fZ fV fC fCB :
  0 <= base -> base + 10 < 65536 -> r 0 = 0 -> 0 <= r 1 < 65536 ->
  exists n c', crun_at base (not_reg_code base) n (mkcore r m base fS fZ fV fC fCB) = Some c' /\
    cr c' 1 = (if r 1 =? 0 then 1 else 0) /\ cpc c' = r 13 /\ cr c' 14 = r 12 /\ cr c' 15 = r 15 /\
    cmem c' = m /\ (forall j, 2 <= j <= 10 -> cr c' j = r j).
Proof.
  intros Hb Hb2 R0 R1. destruct (r 1 =? 0) eqn:Z1.
  - assert (E1 : r 1 = 0) by lia.
    exists 6%nat. eexists. split.
    + cgo 0%nat. cgo 1%nat. rewrite R0, E1. zeval.
      cgo 2%nat. cgo 8%nat. cgo 9%nat. cgo 10%nat. reflexivity.
    + cbn [cr cpc cmem]. cbn [Z.eqb Pos.eqb]. repeat split; try reflexivity.
      intros j Hj. repeat match goal with |- context [j =? ?k] => destruct (j =? k) eqn:?; try lia end; try reflexivity.
  - assert (N1 : (r 1 - r 0 - 0) mod 65536 =? 0 = false).
    { rewrite R0, !Z.sub_0_r, Z.mod_small by lia. exact Z1. }
    exists 9%nat. eexists. split.
    + cgo 0%nat. cgo 1%nat. rewrite N1.
      cgo 2%nat. cgo 3%nat. cgo 4%nat. cgo 5%nat. cgo 6%nat. cgo 7%nat.
      rewrite (set_value (base + 10)) by lia.
      cgo 10%nat. reflexivity.
    + cbn [cr cpc cmem]. cbn [Z.eqb Pos.eqb]. repeat split; try reflexivity.
      intros j Hj. repeat match goal with |- context [j =? ?k] => destruct (j =? k) eqn:?; try lia end; try reflexivity.
Qed.

Lemma not_code_valid base : 0 <= base -> base + 10 < 65536 ->
  Forall (fun i => valid_instr i = true) (not_reg_code base).
Proof.
  intros Hb Hb2. unfold not_reg_code.
  assert (A : in_range (-128) 256 ((base + 10) mod 256) = true)
    by (unfold in_range; pose proof (Z.mod_pos_bound (base + 10) 256); lia).
  assert (B : in_range (-128) 256 ((base + 10) / 256) = true).
  { unfold in_range. assert (0 <= (base + 10) / 256) by (apply Z.div_pos; lia).
    assert ((base + 10) / 256 < 256) by (apply Z.div_lt_upper_bound; lia). lia. }
  repeat constructor; cbn [valid_instr reg_ok]; rewrite ?A, ?B; reflexivity.
Qed.

(* the routine on the specification machine itself *)
Theorem not_reg_contract base s :
  0 <= base -> base + 10 < 65536 -> List.length (regs s) = 16%nat -> pc s = base ->
  getreg s 0 = 0 -> 0 <= getreg s 1 < 65536 ->
  exists n s', run_at base (not_reg_code base) n s = Some s' /\
    getreg s' 1 = (if getreg s 1 =? 0 then 1 else 0) /\ pc s' = getreg s 13 /\
    getreg s' 14 = getreg s 12 /\ getreg s' 15 = getreg s 15 /\ mem s' = mem s /\
    (forall j, 2 <= j <= 10 -> getreg s' j = getreg s j).
Proof.
  intros Hb Hb2 L P R0 R1.
  destruct (not_core base (getreg s) (mem s) (flag (f_s s)) (flag (f_z s)) (flag (f_v s)) (flag (f_c s))
              (flag (f_cb s)) Hb Hb2 R0 R1) as (n & c' & E & Q1 & Q2 & Q3 & Q4 & Q5 & Q6).
  pose proof (sim_core_of s L) as S0. unfold core_of in S0. rewrite P in S0.
  destruct (sim_run base (not_reg_code base) (not_code_valid base Hb Hb2) n s _ c' S0 E) as (s' & Rn & S').
  exists n, s'. split; [exact Rn|].
  rewrite !(sim_reg s' c' _ S') by lia. rewrite (sim_pc s' c' S'), (sim_mem s' c' S').
  repeat split; try assumption.
  intros j Hj. rewrite (sim_reg s' c' j S') by lia. apply Q6, Hj.
Qed.
