(* C14_Total.v — on the session model no state-changing command raises an internal error:
   from a well-formed machine every stepping command, breakpoint command, flag command, goto,
   restart and assignment returns (or, for the run-until commands, runs out of the model's fuel —
   the debugged program's own non-termination). *)
From Coq Require Import ZArith List Bool Lia String.
From Hera.Lib Require Import Py Machine Word16.
From Hera.Gen Require Import Utils Vm Ops.
From Hera.Spec Require Import ISA Wf.
From Hera.Model Require Import Run Debugger MiniParser Session.
From Hera.Proofs Require Import VmLemmas Tactics SpecLemmas C02_Step C02_Run C02_Init C11_Debug C02_Debug.
Import ListNotations.
Open Scope Z_scope.

Definition fine {A} (r : res A) : Prop := match r with Ok _ => True | Raise OutOfFuel => True | Raise _ => False end.

(* the operations of one source operation all execute *)
Lemma slice_total code : code_ok (rops code) -> only_last_branches code ->
  forall t x d,
  wf_vm (d_vm d) -> flag (halted (d_vm d)) = false -> 0 <= pc (d_vm d) ->
  skipn (Z.to_nat (pc (d_vm d))) code = x :: t ->
  exists d', exec_slice (x :: same_orig_prefix (dp_orig x) t) d = Ok d'.
Proof.
  intros C OL. induction t as [|y t IH]; intros x d W Hh Hp Hsk.
  - cbn [same_orig_prefix exec_slice].
    destruct (skipn_nth code _ x [] dummy_dop Hsk) as [En Hl].
    assert (In (dp_rop x) (rops code)).
    { unfold rops. apply in_map. rewrite <- En. apply nth_In, Hl. }
    destruct C as [Call Clen]. rewrite Forall_forall in Call.
    assert (Wl : wf_vm (upd_location (r_loc (dp_rop x)) (d_vm d))) by (apply wf_upd_location, W).
    destruct (code_op_wf (dp_rop x) _ (Call _ H) Wl) as (s' & E & _).
    { unfold pc_ok. cbn [pc upd_location]. rewrite zlen_rops in Clen. unfold zlen in Clen. lia. }
    unfold bind, set_location. rewrite E. eexists. reflexivity.
  - cbn [same_orig_prefix]. destruct (Nat.eqb (dp_orig y) (dp_orig x)) eqn:Eo.
    + apply Nat.eqb_eq in Eo. cbn [exec_slice].
      pose proof (only_last_skipn code (Z.to_nat (pc (d_vm d))) OL) as OS. rewrite Hsk in OS.
      cbn [only_last_branches] in OS. destruct OS as [Ft _]. specialize (Ft (eq_sym Eo)).
      assert (Wl : wf_vm (upd_location (r_loc (dp_rop x)) (d_vm d))) by (apply wf_upd_location, W).
      destruct (falls_through_exec (dp_rop x) _ Ft Wl) as (s' & Ex & W' & Hpc & Hhl).
      unfold bind, set_location. rewrite Ex.
      set (d1 := mkd s' (d_bps d) _).
      assert (Hsk' : skipn (Z.to_nat (pc (d_vm d1))) code = y :: t).
      { subst d1. cbn [d_vm]. rewrite Hpc. cbn [pc upd_location].
        replace (Z.to_nat (pc (d_vm d) + 1)) with (S (Z.to_nat (pc (d_vm d)))) by lia.
        eapply skipn_S_cons, Hsk. }
      rewrite <- Eo.
      apply (IH y d1 W' ltac:(subst d1; cbn [d_vm]; rewrite Hhl; exact Hh)
               ltac:(subst d1; cbn [d_vm]; rewrite Hpc; cbn [pc upd_location]; lia) Hsk').
    + cbn [exec_slice].
      destruct (skipn_nth code _ x (y :: t) dummy_dop Hsk) as [En Hl].
      assert (In (dp_rop x) (rops code)).
      { unfold rops. apply in_map. rewrite <- En. apply nth_In, Hl. }
      destruct C as [Call Clen]. rewrite Forall_forall in Call.
      assert (Wl : wf_vm (upd_location (r_loc (dp_rop x)) (d_vm d))) by (apply wf_upd_location, W).
      destruct (code_op_wf (dp_rop x) _ (Call _ H) Wl) as (s' & E & _).
      { unfold pc_ok. cbn [pc upd_location]. rewrite zlen_rops in Clen. unfold zlen in Clen. lia. }
      unfold bind, set_location. rewrite E. eexists. reflexivity.
Qed.

Lemma next_into_total code d : code_ok (rops code) -> only_last_branches code -> wf_vm (d_vm d) ->
  exists d', next_into code d = Ok d'.
Proof.
  intros C OL W. unfold next_into. destruct (d_finished code d) eqn:F; [eexists; reflexivity|].
  destruct (not_finished_facts code d F (wf_halted _ W)) as [Hh Hp].
  destruct (skipn_in_range code (Z.to_nat (pc (d_vm d))) ltac:(unfold zlen in Hp; lia)) as (x & t & Hsk).
  unfold slice_at. rewrite Hsk. apply (slice_total code C OL t x d W Hh ltac:(lia) Hsk).
Qed.

(* a result that is not an internal error, and a well-formed machine when it is a state *)
Definition good (r : res dstate) : Prop :=
  match r with Ok d' => wf_vm (d_vm d') | Raise OutOfFuel => True | Raise _ => False end.

Lemma good_fine r : good r -> fine r.
Proof. destruct r as [d|e]; cbn; [trivial|destruct e; trivial]. Qed.

Section Stepping.
  Variable code : dcode.
  Hypothesis C : code_ok (rops code).
  Hypothesis OL : only_last_branches code.

  Lemma next_into_good d : wf_vm (d_vm d) -> good (next_into code d).
  Proof.
    intros W. destruct (next_into_total code d C OL W) as [d' E]. rewrite E. cbn.
    exact (proj1 (proj1 (next_into_inv code (d_vm d) d d' C OL (dinv_self code d W) E))).
  Qed.

  Lemma next_over_loop_good fuel : forall c0 d, wf_vm (d_vm d) -> good (next_over_loop fuel code c0 d).
  Proof.
    induction fuel as [|f IH]; intros c0 d W; cbn [next_over_loop]; [exact Logic.I|].
    destruct (negb (d_finished code d) && negb (d_at_breakpoint code d) && (c0 <? d_calls d)); [|exact W].
    pose proof (next_into_good d W) as G. destruct (next_into code d) as [d1|e]; [apply IH, G|exact G].
  Qed.

  Lemma next_over_good fuel d : wf_vm (d_vm d) -> good (next_over fuel code d).
  Proof.
    intros W. unfold next_over. destruct (d_finished code d) eqn:F; [exact W|].
    destruct (opname_is _ O_CALL).
    - pose proof (next_into_good d W) as G. destruct (next_into code d) as [d1|e]; [apply next_over_loop_good, G|exact G].
    - assert (E : next_into code d = exec_slice (slice_at code (pc (d_vm d))) d) by (unfold next_into; now rewrite F).
      rewrite <- E. apply next_into_good, W.
  Qed.

  Lemma next_n_good fuel n : forall d, wf_vm (d_vm d) -> good (next_n fuel code n d).
  Proof.
    induction n as [|n IH]; intros d W; cbn [next_n]; [exact W|].
    destruct (d_finished code d); [exact W|].
    pose proof (next_over_good fuel d W) as G. destruct (next_over fuel code d) as [d1|e]; [apply IH, G|exact G].
  Qed.

  Lemma continue_loop_good fuel : forall d, wf_vm (d_vm d) -> good (continue_loop fuel code d).
  Proof.
    induction fuel as [|f IH]; intros d W; cbn [continue_loop]; [exact Logic.I|].
    destruct (negb (d_finished code d) && negb (d_at_breakpoint code d)); [|exact W].
    pose proof (next_into_good d W) as G. destruct (next_into code d) as [d1|e]; [apply IH, G|exact G].
  Qed.

  Lemma do_continue_good fuel d : wf_vm (d_vm d) -> good (do_continue fuel code d).
  Proof.
    intros W. unfold do_continue.
    pose proof (next_into_good d W) as G. destruct (next_into code d) as [d1|e]; [apply continue_loop_good, G|exact G].
  Qed.

  Lemma do_step_good d : wf_vm (d_vm d) -> good (Session.do_step code d).
  Proof.
    intros W. unfold Session.do_step. destruct (d_finished code d); [exact W|].
    destruct (opname_is _ O_CALL); [apply next_into_good, W|exact W].
  Qed.
End Stepping.

(* what a command needs in order to be covered: register targets are registers, restart has a
   loadable data segment; `execute` is outside this theorem *)
Definition cmd_ok (data : list rop) (s : session) (c : cmd) : Prop :=
  match c with
  | CExecute _ => False
  | CAssign (LReg i) _ => reg_ix i
  | CRestart => Forall data_op_ok data /\ init_ok (cfg (d_vm (s_cur s))) /\
                0 <= data_start (cfg (d_vm (s_cur s))) /\ data_start (cfg (d_vm (s_cur s))) + data_total data <= 65536
  | _ => True
  end.

Lemma mutate_fine f s : fine (f (s_cur s)) -> fine (mutate f s).
Proof. unfold mutate. destruct (f (s_cur s)) as [d|e]; cbn; [trivial|destruct e; trivial]. Qed.

Theorem sess_step_fine fuel code data st c s :
  code_ok (rops code) -> only_last_branches code -> wf_vm (d_vm (s_cur s)) -> cmd_ok data s c ->
  fine (sess_step fuel code data st c s).
Proof.
  intros C OL W K. destruct c; cbn [sess_step]; try (apply mutate_fine); try exact Logic.I.
  - apply good_fine, next_n_good; assumption.
  - apply good_fine, do_step_good; assumption.
  - apply good_fine, do_continue_good; assumption.
  - (* restart *) destruct K as (D & I & H0 & H1).
    destruct (d_init_wf data (s_cur s) D I H0 H1) as (s2 & Ei & W2). unfold do_restart. rewrite Ei. exact Logic.I.
  - (* assign *) unfold do_assign. destruct (eval (d_vm (s_cur s)) st r) as [rhs|]; [|exact Logic.I].
    destruct l as [i|a| |].
    + cbn [cmd_ok] in K.
      rewrite (vm_store_register_ok (d_vm (s_cur s)) i rhs (proj1 (wf_r _ W)) K (wf_wovf _ W)). exact Logic.I.
    + destruct (eval (d_vm (s_cur s)) st a) as [addr|]; [|exact Logic.I].
      unfold bind, lift.
      destruct (to_u16_cases addr) as [[Ra Ta]|[m Ta]]; rewrite Ta; [|exact Logic.I].
      destruct (to_u16_cases rhs) as [[Rv Tv]|[m Tv]]; rewrite Tv; [|exact Logic.I].
      pose proof (wf_m _ W) as [[Hm0 Hm1] _].
      rewrite (vm_store_memory_ok (d_vm (s_cur s)) (addr mod 65536) (rhs mod 65536))
        by (try apply Z.mod_pos_bound; lia). exact Logic.I.
    + exact Logic.I.
    + exact Logic.I.
  - destruct K.
Qed.
