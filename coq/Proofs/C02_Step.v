(* C02_Step.v — every instruction preserves well-formedness of the machine state.
   First for the specification's step function, then transferred to the code model through
   C01 (exec_exact); the cases C01 leaves open (CALL/RETURN with aliased operands) are proved
   on the code model directly. *)
From Coq Require Import ZArith List Bool String Lia ZifyBool.
From Hera.Lib Require Import Py Machine Word16.
From Hera.Gen Require Import Utils Vm Ops.
From Hera.Spec Require Import ISA Wf.
From Hera.Model Require Import InstrOf.
From Hera.Proofs Require Import VmLemmas Tactics SpecLemmas C01_ALU C01_MUL C01_Shift C01_Misc C01_Branch C01_All.
Import ListNotations.
Open Scope Z_scope.

Ltac Zify.zify_post_hook ::= Z.to_euclidean_division_equations.

Ltac wf_split W :=
  destruct W as [Wr Wfs Wfz Wfv Wfc Wfcb Wh Wwo Wm].

(* updates of fields the invariant does not mention, or by values of the right kind *)
Ltac wf_easy :=
  let W := fresh "W" in intros W; wf_split W; constructor; cbn; try assumption; try (eexists; reflexivity).

Lemma wf_upd_pc x s : wf_vm s -> wf_vm (upd_pc x s).            Proof. wf_easy. Qed.
Lemma wf_upd_dc x s : wf_vm s -> wf_vm (upd_dc x s).            Proof. wf_easy. Qed.
Lemma wf_upd_f_s b s : wf_vm s -> wf_vm (upd_f_s (PB b) s).     Proof. wf_easy. Qed.
Lemma wf_upd_f_z b s : wf_vm s -> wf_vm (upd_f_z (PB b) s).     Proof. wf_easy. Qed.
Lemma wf_upd_f_v b s : wf_vm s -> wf_vm (upd_f_v (PB b) s).     Proof. wf_easy. Qed.
Lemma wf_upd_f_c b s : wf_vm s -> wf_vm (upd_f_c (PB b) s).     Proof. wf_easy. Qed.
Lemma wf_upd_f_cb b s : wf_vm s -> wf_vm (upd_f_cb (PB b) s).   Proof. wf_easy. Qed.
Lemma wf_upd_halted b s : wf_vm s -> wf_vm (upd_halted (PB b) s). Proof. wf_easy. Qed.
Lemma wf_upd_ers x s : wf_vm s -> wf_vm (upd_ers x s).          Proof. wf_easy. Qed.
Lemma wf_upd_out x s : wf_vm s -> wf_vm (upd_out x s).          Proof. wf_easy. Qed.
Lemma wf_upd_swc x s : wf_vm s -> wf_vm (upd_swarning_count x s). Proof. wf_easy. Qed.
Lemma wf_upd_wc x s : wf_vm s -> wf_vm (upd_warning_count x s). Proof. wf_easy. Qed.
Lemma wf_upd_op_count x s : wf_vm s -> wf_vm (upd_op_count x s). Proof. wf_easy. Qed.
Lemma wf_upd_location x s : wf_vm s -> wf_vm (upd_location x s). Proof. wf_easy. Qed.
Lemma wf_upd_warned_ovf b s : wf_vm s -> wf_vm (upd_warned_ovf (PB b) s). Proof. wf_easy. Qed.
Lemma wf_upd_f_c_bool c s : is_bool c -> wf_vm s -> wf_vm (upd_f_c c s).
Proof. intros [b ->]. apply wf_upd_f_c. Qed.
Lemma wf_upd_f_v_bool c s : is_bool c -> wf_vm s -> wf_vm (upd_f_v c s).
Proof. intros [b ->]. apply wf_upd_f_v. Qed.

Lemma wf_regs_set r i v : wf_regs r -> 0 < i < 16 -> word v -> wf_regs (list_set r (Z.to_nat i) v).
Proof.
  intros (Hl & Ha & H0) Hi Hv. split; [|split].
  - now rewrite list_set_length.
  - apply Forall_list_set; assumption.
  - rewrite nth_list_set_other by lia. exact H0.
Qed.

Lemma wf_setreg i v s : wf_vm s -> reg_ix i -> word v -> wf_vm (setreg i v s).
Proof.
  intros W Hi Hv. unfold setreg. destruct (i =? 0) eqn:E0; [exact W|].
  assert (W1 : wf_vm (upd_regs (list_set (regs s) (Z.to_nat i) v) s)).
  { wf_split W. constructor; cbn; try assumption. apply wf_regs_set; [assumption | unfold reg_ix in Hi; lia | assumption]. }
  destruct ((i =? 15) && (data_start (cfg s) <=? v) && negb (flag (warned_ovf s))); [|exact W1].
  apply wf_upd_warned_ovf, wf_upd_wc, wf_upd_out. exact W1.
Qed.

Lemma wf_set_zs v s : wf_vm s -> wf_vm (set_zs v s).
Proof. intros W. unfold set_zs. apply wf_upd_f_s, wf_upd_f_z, W. Qed.

Lemma wf_next s : wf_vm s -> wf_vm (next s).
Proof. intros W. apply wf_upd_pc, W. Qed.

Lemma wf_mem_write m a v : wf_mem m -> 0 <= a < 65536 -> word v -> wf_mem (mem_write m a v).
Proof.
  intros [Hl Hc] Ha Hv. unfold mem_write. split; cbn [mlen cells]; [lia|].
  constructor; [cbn; split; [lia|exact Hv]|].
  eapply Forall_impl; [|exact Hc]. cbv beta. intros kv [H1 H2]. split; [lia|exact H2].
Qed.

Lemma wf_upd_mem m s : wf_vm s -> wf_mem m -> wf_vm (upd_mem m s).
Proof. intros W Hm. wf_split W. constructor; cbn; assumption. Qed.

(* ---- results of the ALU functions are words, and they leave the state well-formed ------- *)
Ltac flag_cases s := unfold cin, bin; destruct (flag (f_c s)), (flag (f_cb s)); cbn [andb negb].

Lemma mod_word x : word (x mod 65536).
Proof. unfold word. apply Z.mod_pos_bound. lia. Qed.

Definition alu3_ok (f : Z -> Z -> vm -> Z * vm) : Prop :=
  forall x y s, wf_vm s -> word x -> word y -> word (fst (f x y s)) /\ wf_vm (snd (f x y s)).
Definition alu2_ok (f : Z -> vm -> Z * vm) : Prop :=
  forall x s, wf_vm s -> word x -> word (fst (f x s)) /\ wf_vm (snd (f x s)).

Lemma f_AND_ok : alu3_ok f_AND. Proof. intros x y s W Hx Hy. split; [now apply land_word|exact W]. Qed.
Lemma f_OR_ok : alu3_ok f_OR.   Proof. intros x y s W Hx Hy. split; [now apply lor_word|exact W]. Qed.
Lemma f_XOR_ok : alu3_ok f_XOR. Proof. intros x y s W Hx Hy. split; [now apply lxor_word|exact W]. Qed.
Lemma f_ADD_ok : alu3_ok f_ADD.
Proof. intros x y s W Hx Hy. split; [apply mod_word | apply wf_upd_f_v, wf_upd_f_c, W]. Qed.
Lemma f_SUB_ok : alu3_ok f_SUB.
Proof. intros x y s W Hx Hy. split; [apply mod_word | apply wf_upd_f_v, wf_upd_f_c, W]. Qed.
Lemma f_MUL_low_ok : alu3_ok f_MUL_low.
Proof. intros x y s W Hx Hy. split; [apply mod_word | apply wf_upd_f_v, wf_upd_f_c, W]. Qed.
Lemma f_MUL_high_ok c v : is_bool c -> is_bool v -> alu3_ok (f_MUL_high c v).
Proof.
  intros Hc Hv x y s W Hx Hy. split.
  - unfold f_MUL_high, word. cbn [fst].
    pose proof (Z.mod_pos_bound (sgn16 x * sgn16 y) 4294967296). lia.
  - apply wf_upd_f_v_bool; [exact Hv|]. apply wf_upd_f_c_bool; [exact Hc|exact W].
Qed.

Lemma f_LSL_ok : alu2_ok f_LSL.
Proof. intros x s W Hx. split; [apply mod_word | apply wf_upd_f_c, W]. Qed.
Lemma f_LSR_ok : alu2_ok f_LSR.
Proof.
  intros x s W Hx. split; [|apply wf_upd_f_c, W].
  unfold f_LSR, word in *. cbn [fst]. flag_cases s; lia.
Qed.
Lemma f_LSL8_ok : alu2_ok f_LSL8. Proof. intros x s W Hx. split; [apply mod_word|exact W]. Qed.
Lemma f_LSR8_ok : alu2_ok f_LSR8.
Proof. intros x s W Hx. split; [|exact W]. unfold f_LSR8, word in *. cbn [fst]. lia. Qed.
Lemma f_ASL_ok : alu2_ok f_ASL.
Proof. intros x s W Hx. split; [apply mod_word | apply wf_upd_f_v, wf_upd_f_c, W]. Qed.
Lemma f_ASR_ok : alu2_ok f_ASR.
Proof. intros x s W Hx. split; [apply mod_word | apply wf_upd_f_c, W]. Qed.

Lemma wf_alu3 f d a b s : alu3_ok f -> wf_vm s -> reg_ix d -> reg_ix a -> reg_ix b -> wf_vm (alu3 f d a b s).
Proof.
  intros Hf W Hd Ha Hb. unfold alu3.
  destruct (Hf (getreg s a) (getreg s b) s W (getreg_word _ _ W Ha) (getreg_word _ _ W Hb)) as [Hr Hs].
  apply wf_next, wf_setreg; [apply wf_set_zs, Hs | exact Hd | exact Hr].
Qed.
Lemma wf_alu2 f d b s : alu2_ok f -> wf_vm s -> reg_ix d -> reg_ix b -> wf_vm (alu2 f d b s).
Proof.
  intros Hf W Hd Hb. unfold alu2.
  destruct (Hf (getreg s b) s W (getreg_word _ _ W Hb)) as [Hr Hs].
  apply wf_next, wf_setreg; [apply wf_set_zs, Hs | exact Hd | exact Hr].
Qed.

Lemma flags_word_word s : wf_vm s -> word (flags_word s).
Proof.
  intros W. unfold flags_word, word.
  destruct (flag (f_s s)), (flag (f_z s)), (flag (f_v s)), (flag (f_c s)), (flag (f_cb s)); cbn; lia.
Qed.

(* a program counter from which pc+1 is still a 16-bit word (programs shorter than 2^16) *)
Definition pc_ok (s : vm) : Prop := 0 <= pc s < 65535.

Lemma wf_swap_call a b s : wf_vm s -> reg_ix a -> reg_ix b -> pc_ok s -> wf_vm (swap_call a b s).
Proof.
  intros W Ha Hb Hp. unfold swap_call.
  assert (H14 : reg_ix 14) by (unfold reg_ix; lia).
  apply wf_upd_pc, wf_setreg; [|exact Ha|apply getreg_word; assumption].
  apply wf_setreg; [|exact H14|apply getreg_word; assumption].
  apply wf_setreg; [exact W|exact Hb|unfold pc_ok, word in *; lia].
Qed.

Lemma wf_return_warning s got : wf_vm s -> wf_vm (return_warning s got).
Proof.
  intros W. unfold return_warning. destruct (warn_return_on (cfg s)); [|exact W].
  destruct (rev (ers s)) as [|[ca ex] t].
  - apply wf_upd_swc, wf_upd_out, W.
  - destruct (ex =? got); [apply wf_upd_ers, W|apply wf_upd_swc, wf_upd_out, wf_upd_ers, W].
Qed.

(* only CALL and RETURN store pc+1 in a register *)
Definition pc_needed (i : instr) (s : vm) : Prop :=
  match i with I_CALL _ _ | I_RETURN _ _ => pc_ok s | _ => True end.

Lemma pc_ok_needed i s : pc_ok s -> pc_needed i s.
Proof. intros H. destruct i; cbn; auto. Qed.

Theorem step_wf_spec mc mv i s :
  wf_vm s -> is_bool mc -> is_bool mv -> valid_instr i = true -> pc_needed i s ->
  wf_vm (step_with mc mv i s).
Proof.
  intros W Hc Hv Hi Hp.
  destruct i; cbn [valid_instr] in Hi; unfold reg_ok, in_range in Hi; cbn [step_with]; cbn [pc_needed] in Hp.
  - (* SETLO *) apply wf_next, wf_setreg; [exact W|unfold reg_ix; lia|apply mod_word].
  - (* SETHI *) apply wf_next, wf_setreg; [exact W|unfold reg_ix; lia|].
    unfold word, byte_of. pose proof (Z.mod_pos_bound v 256). pose proof (Z.mod_pos_bound (getreg s d) 256). lia.
  - apply wf_alu3; [apply f_AND_ok|exact W|unfold reg_ix; lia..].
  - apply wf_alu3; [apply f_OR_ok|exact W|unfold reg_ix; lia..].
  - apply wf_alu3; [apply f_XOR_ok|exact W|unfold reg_ix; lia..].
  - apply wf_alu3; [apply f_ADD_ok|exact W|unfold reg_ix; lia..].
  - apply wf_alu3; [apply f_SUB_ok|exact W|unfold reg_ix; lia..].
  - destruct (mul_high_mode s).
    + apply wf_alu3; [apply f_MUL_high_ok; assumption|exact W|unfold reg_ix; lia..].
    + apply wf_alu3; [apply f_MUL_low_ok|exact W|unfold reg_ix; lia..].
  - (* INC *) unfold step_INC. apply wf_next, wf_upd_f_c, wf_upd_f_v, wf_set_zs, wf_setreg;
      [exact W|unfold reg_ix; lia|apply mod_word].
  - (* DEC *) unfold step_DEC. apply wf_next, wf_upd_f_c, wf_upd_f_v, wf_set_zs, wf_setreg;
      [exact W|unfold reg_ix; lia|apply mod_word].
  - apply wf_alu2; [apply f_LSL_ok|exact W|unfold reg_ix; lia..].
  - apply wf_alu2; [apply f_LSR_ok|exact W|unfold reg_ix; lia..].
  - apply wf_alu2; [apply f_LSL8_ok|exact W|unfold reg_ix; lia..].
  - apply wf_alu2; [apply f_LSR8_ok|exact W|unfold reg_ix; lia..].
  - apply wf_alu2; [apply f_ASL_ok|exact W|unfold reg_ix; lia..].
  - apply wf_alu2; [apply f_ASR_ok|exact W|unfold reg_ix; lia..].
  - (* SAVEF *) apply wf_next, wf_setreg; [exact W|unfold reg_ix; lia|apply flags_word_word, W].
  - (* RSTRF *) unfold step_RSTRF, set_flags5.
    apply wf_next, wf_upd_f_cb, wf_upd_f_c, wf_upd_f_v, wf_upd_f_z, wf_upd_f_s, W.
  - unfold step_FON. apply wf_next, wf_upd_f_cb, wf_upd_f_c, wf_upd_f_v, wf_upd_f_z, wf_upd_f_s, W.
  - unfold step_FOFF. apply wf_next, wf_upd_f_cb, wf_upd_f_c, wf_upd_f_v, wf_upd_f_z, wf_upd_f_s, W.
  - unfold step_FSET5, set_flags5. apply wf_next, wf_upd_f_cb, wf_upd_f_c, wf_upd_f_v, wf_upd_f_z, wf_upd_f_s, W.
  - unfold step_FSET4. apply wf_next, wf_upd_f_c, wf_upd_f_v, wf_upd_f_z, wf_upd_f_s, W.
  - (* LOAD *) unfold step_LOAD. apply wf_next, wf_setreg;
      [apply wf_set_zs, W|unfold reg_ix; lia|apply mem_read_word, (wf_m _ W)].
  - (* STORE *) unfold step_STORE. apply wf_next, wf_upd_mem; [exact W|].
    apply wf_mem_write; [apply (wf_m _ W)|unfold ea; apply Z.mod_pos_bound; lia|].
    apply getreg_word; [exact W|unfold reg_ix; lia].
  - (* register branch *) unfold step_regbranch. destruct (holds c s); [apply wf_upd_pc, W|apply wf_next, W].
  - (* relative branch *)
    destruct c; try (unfold step_relbranch; match goal with |- context [holds ?c s] => destruct (holds c s) end;
                     [apply wf_upd_pc, W|apply wf_next, W]).
    unfold step_BRR. destruct (sext8 (byte_of o) =? 0); [apply wf_upd_halted, W|apply wf_upd_pc, W].
  - (* CALL *) unfold step_CALL. apply wf_swap_call; [apply wf_upd_ers, W|unfold reg_ix; lia..|exact Hp].
  - (* RETURN *) unfold step_RETURN. apply wf_swap_call; [apply wf_return_warning, W|unfold reg_ix; lia..|].
    unfold pc_ok, return_warning in *. destruct (warn_return_on (cfg s)); [|exact Hp].
    destruct (rev (ers s)) as [|[ca ex] t]; [exact Hp|]. destruct (ex =? getreg s b); exact Hp.
  - exact W.
  - exact W.
Qed.

Ltac pnorm :=
  repeat (progress (autorewrite with spec;
                    cbn [regs pc dc f_s f_z f_v f_c f_cb mem halted ers op_count warned_ovf warned_swi
                         warned_rti warning_count swarning_count location input_buffer input_pos out cfg
                         upd_regs upd_pc upd_dc upd_f_s upd_f_z upd_f_v upd_f_c upd_f_cb upd_mem
                         upd_halted upd_ers upd_op_count upd_warned_ovf upd_warning_count
                         upd_swarning_count upd_location upd_out set_zs next])).

(* no instruction touches the operation counter *)
Lemma step_op_count mc mv i s : op_count (step_with mc mv i s) = op_count s.
Proof.
  destruct i; try match goal with c : cond |- _ => destruct c end; cbn [step_with];
    unfold step_SETLO, step_SETHI, step_AND, step_OR, step_XOR, step_ADD, step_SUB, step_MUL_low, step_MUL_high,
           step_INC, step_DEC, step_LSL, step_LSR, step_LSL8, step_LSR8, step_ASL, step_ASR, step_SAVEF,
           step_RSTRF, step_FON, step_FOFF, step_FSET5, step_FSET4, step_LOAD, step_STORE, step_regbranch,
           step_relbranch, step_BRR, step_CALL, step_RETURN, swap_call, return_warning, alu3, alu2, set_flags5,
           f_AND, f_OR, f_XOR, f_ADD, f_SUB, f_MUL_low, f_MUL_high, f_LSL, f_LSR, f_LSL8, f_LSR8, f_ASL, f_ASR;
    cbn [fst snd];
    repeat match goal with |- context [if ?b then _ else _] => destruct b end;
    repeat match goal with |- context [match ?l with [] => _ | _ => _ end] => destruct l as [|[? ?] ?] end;
    repeat match goal with |- context [if ?b then _ else _] => destruct b end;
    pnorm; reflexivity.
Qed.
