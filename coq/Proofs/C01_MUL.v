(* C01_MUL.v — MUL: low word in the ordinary mode; in high-word mode (sign on, carry-block
   off) the result is the high word of the signed 32-bit product and carry/overflow are
   left open by the definition (existentially quantified here). *)
From Coq Require Import ZArith List Bool String Lia ZifyBool.
From Hera.Lib Require Import Py Machine Word16.
From Hera.Gen Require Import Utils Vm Ops.
From Hera.Spec Require Import ISA Wf.
From Hera.Proofs Require Import VmLemmas Tactics C01_ALU.
Import ListNotations.
Open Scope Z_scope.

Ltac Zify.zify_post_hook ::= Z.to_euclidean_division_equations.

Lemma to_u32_ok x s : -2147483648 <= x < 4294967296 ->
  lift (to_u32 (PI x)) s = Ok (PI (x mod 4294967296), s).
Proof.
  intros H. unfold lift, to_u32, rret, rraise. msimpl.
  destruct (x >=? 4294967296) eqn:E1; [lia|].
  destruct (x <? -2147483648) eqn:E2; [lia|]. cbn [negb].
  destruct (x <? 0) eqn:E3; cbn [negb]; st_eq.
Qed.

Lemma high16 p : Z.shiftr (Z.land p 4294901760) 16 = (p / 65536) mod 65536.
Proof.
  rewrite Z.shiftr_land. change (Z.shiftr 4294901760 16) with 65535.
  rewrite land_65535, Z.shiftr_div_pow2 by lia. reflexivity.
Qed.

Lemma calculate_MUL_low_ok s x y : wf_flags s -> word x -> word y -> mul_high_mode s = false ->
  calculate_MUL (PI x) (PI y) s = Ok (PI (fst (f_MUL_low x y s)), snd (f_MUL_low x y s)).
Proof.
  intros Hf Hx Hy Hm. expose_state s Hf. unfold word in *.
  unfold mul_high_mode, flag in Hm. cbn [f_s f_cb truthy] in Hm.
  unfold calculate_MUL, f_MUL_low, flag, fits16s, sgn16.
  destruct bs, bcb; cbn in Hm; try discriminate Hm;
    msimpl; norm_words; msimpl; bsimpl; norm_words; st_eq.
Qed.

(* (a * b) mod 2^32 only depends on a, b mod 2^32 *)
Lemma mul_mod32 a b : ((a mod 4294967296) * (b mod 4294967296)) mod 4294967296 = (a * b) mod 4294967296.
Proof. now rewrite <- Z.mul_mod by lia. Qed.

Lemma div_mod_shift p : (p / 65536) mod 65536 = (p mod 4294967296) / 65536.
Proof.
  change 4294967296 with (65536 * 65536).
  rewrite Z.rem_mul_r by lia.
  rewrite Z.mul_comm, Z.div_add by lia.
  rewrite (Z.div_small (p mod 65536)) by (apply Z.mod_pos_bound; lia). lia.
Qed.

Lemma calculate_MUL_high_ok s x y : wf_flags s -> word x -> word y -> mul_high_mode s = true ->
  exists c v, is_bool c /\ is_bool v /\
    calculate_MUL (PI x) (PI y) s = Ok (PI (fst (f_MUL_high c v x y s)), snd (f_MUL_high c v x y s)).
Proof.
  intros Hf Hx Hy Hm. expose_state s Hf. unfold word in *.
  unfold mul_high_mode, flag in Hm. cbn [f_s f_cb truthy] in Hm.
  destruct bs, bcb; cbn in Hm; try discriminate Hm.
  set (sx := if x >=? 32768 then - (65536 - x) else x).
  set (sy := if y >=? 32768 then - (65536 - y) else y).
  assert (Hsx : -32768 <= sx < 32768) by (subst sx; destruct (x >=? 32768) eqn:?; lia).
  assert (Hsy : -32768 <= sy < 32768) by (subst sy; destruct (y >=? 32768) eqn:?; lia).
  assert (Ex : (if x <? 32768 then x else x - 65536) = sx)
    by (subst sx; destruct (x >=? 32768) eqn:?, (x <? 32768) eqn:?; lia).
  assert (Ey : (if y <? 32768 then y else y - 65536) = sy)
    by (subst sy; destruct (y >=? 32768) eqn:?, (y <? 32768) eqn:?; lia).
  unfold calculate_MUL.
  mstep reflexivity. mstep reflexivity.
  cbn [truthy py_and py_not negb].
  rewrite !from_u16_PI. fold sx sy.
  mstep ltac:(apply to_u32_ok; lia).
  mstep ltac:(apply to_u32_ok; lia).
  mstep reflexivity. mstep reflexivity.
  unfold ret, f_MUL_high, sgn16. rewrite Ex, Ey. cbn [fst snd].
  unfold py_shr, py_band, py_mul, py_lt, py_ne; cbn [as_int].
  rewrite high16, div_mod_shift, mul_mod32.
  do 2 eexists. split; [|split]; [eexists; reflexivity | eexists; reflexivity |].
  reflexivity.
Qed.

Theorem exec_MUL_low_ok s d a b : wf_vm s -> reg_ix d -> reg_ix a -> reg_ix b ->
  mul_high_mode s = false ->
  exec_MUL [PI d; PI a; PI b] s = Ok (tt, step_MUL_low d a b s).
Proof.
  intros W Hd Ha Hb Hm.
  assert (L : forall x y, wf_flags s -> word x -> word y ->
            calculate_MUL (PI x) (PI y) s = Ok (PI (fst (f_MUL_low x y s)), snd (f_MUL_low x y s)))
    by (intros; apply calculate_MUL_low_ok; assumption).
  revert W Hd Ha Hb. unfold exec_MUL. exec3 L mod_range.
Qed.

Theorem exec_MUL_high_ok s d a b : wf_vm s -> reg_ix d -> reg_ix a -> reg_ix b ->
  mul_high_mode s = true ->
  exists c v, is_bool c /\ is_bool v /\
    exec_MUL [PI d; PI a; PI b] s = Ok (tt, step_MUL_high c v d a b s).
Proof.
  intros W Hd Ha Hb Hm.
  destruct (calculate_MUL_high_ok s (getreg s a) (getreg s b) (wf_vm_flags _ W)
              (getreg_word _ _ W Ha) (getreg_word _ _ W Hb) Hm) as (c & v & Hc & Hv & E).
  exists c, v. split; [exact Hc|]. split; [exact Hv|].
  assert (Hr : word (fst (f_MUL_high c v (getreg s a) (getreg s b) s))).
  { unfold word, f_MUL_high; cbn [fst].
    pose proof (Z.mod_pos_bound (sgn16 (getreg s a) * sgn16 (getreg s b)) 4294967296). lia. }
  revert W Hd Ha Hb. unfold exec_MUL.
  exec3t ltac:(apply E) ltac:(exact Hr).
Qed.
