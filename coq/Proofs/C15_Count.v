(* C15_Count.v — no instruction reads or writes the interpreter's instruction counter: the
   specification step commutes with setting op_count.  With C01 (execute = step) this is what
   makes a throttled run and an unthrottled run differ in nothing but that counter. *)
From Coq Require Import ZArith List Bool.
From Hera.Lib Require Import Py Machine.
From Hera.Spec Require Import ISA.
Open Scope Z_scope.

Ltac split_ifs := repeat match goal with |- context [if ?b then _ else _] => destruct b end.
Ltac unf := cbv beta iota zeta delta [step_with sp_warning setreg set_zs next alu3 step_AND step_OR step_XOR step_ADD step_SUB
  step_MUL_low step_MUL_high alu2 step_LSL step_LSR step_LSL8 step_LSR8 step_ASL step_ASR step_INC step_DEC step_SAVEF
  f_AND f_OR f_XOR f_ADD f_SUB f_MUL_low f_MUL_high f_LSL f_LSR f_LSL8 f_LSR8 f_ASL f_ASR fst snd
  set_flags5 step_RSTRF step_FSET5 step_FSET4 step_FON step_FOFF step_SETLO step_SETHI step_LOAD step_STORE step_regbranch
  step_relbranch step_BRR return_warning mul_high_mode flags_word cin bin getreg ea holds flag
  upd_op_count upd_regs upd_pc upd_f_s upd_f_z upd_f_v upd_f_c upd_f_cb upd_mem upd_halted upd_ers upd_warned_ovf
  upd_warning_count upd_swarning_count upd_out
  regs pc dc f_s f_z f_v f_c f_cb mem halted ers op_count warned_ovf warned_swi warned_rti warning_count swarning_count location
  input_buffer input_pos out cfg].

Lemma setreg_count c i v s : setreg i v (upd_op_count c s) = upd_op_count c (setreg i v s).
Proof. destruct s. unf. split_ifs; reflexivity. Qed.
Lemma getreg_count c s i : getreg (upd_op_count c s) i = getreg s i.
Proof. destruct s. reflexivity. Qed.
Lemma upd_pc_count c t s : upd_pc t (upd_op_count c s) = upd_op_count c (upd_pc t s).
Proof. destruct s. reflexivity. Qed.

Lemma swap_call_count c a b s : swap_call a b (upd_op_count c s) = upd_op_count c (swap_call a b s).
Proof.
  unfold swap_call. rewrite !getreg_count.
  replace (pc (upd_op_count c s)) with (pc s) by (destruct s; reflexivity).
  rewrite !setreg_count. apply upd_pc_count.
Qed.

Lemma return_warning_count c s got : return_warning (upd_op_count c s) got = upd_op_count c (return_warning s got).
Proof.
  destruct s. unf. repeat match goal with |- context [match ?x with _ => _ end] => destruct x end; reflexivity.
Qed.

Theorem step_count_indep mc mv i c s : step_with mc mv i (upd_op_count c s) = upd_op_count c (step_with mc mv i s).
Proof.
  destruct i; try (destruct s; reflexivity).
  all: try (unfold step_with, step_CALL, step_RETURN; rewrite ?getreg_count, ?return_warning_count;
            first [ rewrite <- swap_call_count; f_equal; destruct s; reflexivity
                  | apply swap_call_count ]).
  all: destruct s.
  all: try (unf; split_ifs; reflexivity).
  all: match goal with |- context [I_BREL ?c _] => destruct c end; unf;
       repeat match goal with |- context [match ?x with _ => _ end] => destruct x end; reflexivity.
Qed.
