(* C04_Oplen.v — the two passes of the preprocessor agree on how many instructions each
   source operation becomes: checker.operation_length (used by get_labels when it assigns label
   values) equals the length of what convert() really emits (used by convert_ops when it
   computes relative offsets), for every operation that type-checks. *)
From Coq Require Import ZArith List Bool String Lia.
From Hera.Lib Require Import Py.
From Hera.Gen Require Import Utils Ops Tables Convert.
From Hera.Model Require Import OpRep Bitvec Preproc.
Import ListNotations.
Open Scope Z_scope.

(* what a clean type-check says about the operand list *)
Lemma check_arglist_clean ps ts st i :
  has_errors (check_arglist ps ts st i) = false ->
  List.length ps = List.length ts ->
  Forall2 (fun p t => check_arg p t st = None) ps ts.
Proof.
  revert ts i. induction ps as [|p ps IH]; intros [|t ts] i H L; cbn in L; try discriminate; [constructor|].
  cbn [check_arglist] in H. destruct (check_arg p t st) eqn:E.
  - destruct a; cbn in H; discriminate.
  - constructor; [exact E|]. eapply IH; [exact H|]. now injection L.
Qed.

Lemma typecheck_clean o st :
  has_errors (default_typecheck o st) = false ->
  Forall2 (fun p t => check_arg p t st = None) (P_of (o_cls o)) (o_toks o).
Proof.
  unfold default_typecheck, has_errors. rewrite existsb_app. intros H.
  apply orb_false_iff in H as [H1 H2].
  assert (L : List.length (P_of (o_cls o)) = List.length (o_toks o)).
  { unfold zlen in H1.
    destruct (Z.of_nat (List.length (P_of (o_cls o))) <? Z.of_nat (List.length (o_toks o))) eqn:E1; [discriminate H1|].
    destruct (Z.of_nat (List.length (o_toks o)) <? Z.of_nat (List.length (P_of (o_cls o)))) eqn:E2; [discriminate H1|].
    lia. }
  eapply check_arglist_clean; [exact H2|exact L].
Qed.

(* substitute_label keeps the operand count and every non-symbol token; symbols become ints *)
Lemma subst_tokens_shape ts st ts' : subst_tokens ts st = Ok ts' ->
  Forall2 (fun t t' => if ttype_eqb (t_type t) T_SYMBOL then t_type t' = T_INT else t' = t) ts ts'.
Proof.
  revert ts'. induction ts as [|t r IH]; intros ts' H; cbn [subst_tokens] in H.
  - injection H as <-. constructor.
  - destruct (t_type t) eqn:Et;
      try (unfold rbind in H; destruct (subst_tokens r st) as [r'|]; [|discriminate H]; injection H as <-;
           constructor; [rewrite Et; reflexivity|now apply IH]).
    destruct (dict_get st (t_val t)); [|discriminate H].
    unfold rbind in H. destruct (subst_tokens r st) as [r'|]; [|discriminate H]. injection H as <-.
    constructor; [rewrite Et; reflexivity|now apply IH].
Qed.

Definition counts_as_code (c : opname) : bool := negb (declares_symbol c).

(* a register-or-label operand that type-checks is a register or a symbol *)
Lemma reg_or_label_clean t st : check_arg P_REGISTER_OR_LABEL t st = None ->
  t_type t = T_REGISTER \/ t_type t = T_SYMBOL.
Proof.
  unfold check_arg, check_register_or_label, lift_str. destruct (t_type t); intros H; try discriminate H; auto.
Qed.

Ltac inv2 H := inversion H; subst; clear H.

(* one token of the source operation and the token that replaces it after substitution *)
Ltac split_tokens :=
  repeat match goal with
         | t : token |- _ => let ty := fresh "ty" in let v := fresh "v" in destruct t as [ty v]
         end;
  cbn [t_type t_val] in *.

Ltac kill_types :=
  repeat match goal with
         | ty : ttype |- _ => destruct ty
         end.

Ltac finish Hl :=
  cbv beta iota delta [convert_full convert o_cls o_args o_toks map t_val
                       convert_SET convert_CMP convert_SETRF convert_FLAGS convert_CALL convert_NEG convert_NOT
                       convert_CALL_via_AbstractOperation
                       convert_BR convert_BL convert_BGE convert_BLE convert_BG convert_BULE convert_BUG convert_BZ
                       convert_BNZ convert_BC convert_BNC convert_BS convert_BNS convert_BV convert_BNV
                       convert_BR_via_AbstractOperation convert_BL_via_AbstractOperation
                       convert_BGE_via_AbstractOperation convert_BLE_via_AbstractOperation
                       convert_BG_via_AbstractOperation convert_BULE_via_AbstractOperation
                       convert_BUG_via_AbstractOperation convert_BZ_via_AbstractOperation
                       convert_BNZ_via_AbstractOperation convert_BC_via_AbstractOperation
                       convert_BNC_via_AbstractOperation convert_BS_via_AbstractOperation
                       convert_BNS_via_AbstractOperation convert_BV_via_AbstractOperation
                       convert_BNV_via_AbstractOperation
                       tokens_at oargs_at rbind rret t_type t_val ttype_eqb py_getitem as_int] in Hl;
  cbn [zlen List.length norm_index nth Z.to_nat Z.of_nat Z.ltb Z.add Z.compare Pos.compare Pos.compare_cont
       Pos.of_succ_nat Pos.succ Pos.to_nat Pos.iter_op Nat.add] in Hl;
  repeat match type of Hl with
         | context [to_u16 ?x] => destruct (to_u16 x); [|discriminate Hl]
         | context [disassemble ?x ?b] => destruct (disassemble x b); [|discriminate Hl]
         end;
  try discriminate Hl;
  injection Hl as <-; reflexivity.

Theorem oplen_eq_convert c ts st st' ts' l :
  counts_as_code c = true ->
  has_errors (default_typecheck (mkop c ts) st) = false ->
  subst_tokens ts st' = Ok ts' ->
  convert_full (mkop c ts') = Ok l ->
  zlen l = operation_length (mkop c ts).
Proof.
  intros Hc Ht Hs Hl.
  pose proof (typecheck_clean _ _ Ht) as F. cbn [o_cls o_toks] in F.
  pose proof (subst_tokens_shape _ _ _ Hs) as S. clear Ht Hs.
  destruct c; try discriminate Hc; cbn [P_of] in F;
    repeat match goal with H : Forall2 _ (_ :: _) _ |- _ => inv2 H | H : Forall2 _ [] _ |- _ => inv2 H end;
    repeat match goal with H : Forall2 _ (_ :: _) _ |- _ => inv2 H | H : Forall2 _ [] _ |- _ => inv2 H end;
    (* plain operations: convert = [self] *)
    try (cbv beta iota delta [convert_full convert o_cls] in Hl;
         match type of Hl with ?f _ = _ => unfold f, rret in Hl end;
         injection Hl as <-; reflexivity).
  all: split_tokens; kill_types; cbn in *; try discriminate; subst.
  all: try (finish Hl).
  (* OPCODE: the word's decoding is a single instruction *)
  all: match type of Hl with match ?v with _ => _ end = _ => destruct v; try discriminate Hl end;
       unfold rbind in Hl;
       match type of Hl with context [disassemble ?x ?b] => destruct (disassemble x b); [|discriminate Hl] end;
       injection Hl as <-; reflexivity.
Qed.


(* ---- relative branches to labels: accepted iff the distance fits, and carry that distance ----- *)
Lemma relbranch_step st g i c name rest tv :
  is_relative_branch c = true ->
  (dict_get st name = Some (SLabel tv) \/ dict_get st name = Some (SDataLabel tv)) ->
  let o := mkop c (tok_sym name :: rest) in
  let jump := tv - cv_pc g in
  convert_step st (Ok g) (i, o) =
  if (jump <? -128) || (jump >=? 128) then
    (new <~ convert_full o ;;
     Ok (mkcv (cv_out g ++ map (fun n => mkcop n i) new)
              (if is_data_op c then cv_pc g else cv_pc g + zlen new)
              (cv_msgs g ++ [err "label is too far for a relative branch" [] (LocTok 0)])))%R
  else
    (new <~ convert_full (mkop c (tok_int (PI jump) :: rest)) ;;
     Ok (mkcv (cv_out g ++ map (fun n => mkcop n i) new)
              (if is_data_op c then cv_pc g else cv_pc g + zlen new) (cv_msgs g)))%R.
Proof.
  intros Hr Hd o jump. subst o jump. unfold convert_step, rbind at 1.
  cbn [o_cls o_toks tok_sym t_type t_val ttype_eqb tl]. rewrite Hr. cbn [andb].
  destruct Hd as [-> | ->]; reflexivity.
Qed.

(* ---- data layout: how far each data statement moves the data counter -------------------------- *)
Lemma gl_INTEGER c g ts : gl_dc (get_labels_step c g (mkop O_INTEGER ts)) = gl_dc g + 1.
Proof.
  unfold get_labels_step. cbn [o_cls].
  match goal with |- gl_dc (if ?b then _ else _) = _ => destruct b end; reflexivity.
Qed.
Lemma gl_LP_STRING c g s : gl_dc (get_labels_step c g (mkop O_LP_STRING [tok_str (PS s)])) = gl_dc g + zlen s + 1.
Proof.
  unfold get_labels_step. cbn [o_cls o_args o_toks map t_val tok_str].
  match goal with |- gl_dc (if ?b then _ else _) = _ => destruct b end; reflexivity.
Qed.
Lemma gl_DSKIP c g n : gl_dc (get_labels_step c g (mkop O_DSKIP [tok_int (PI n)])) = gl_dc g + n.
Proof.
  unfold get_labels_step. cbn [o_cls o_args o_toks map t_val tok_int].
  match goal with |- gl_dc (if ?b then _ else _) = _ => destruct b end; reflexivity.
Qed.
Lemma py_eqb_refl k : py_eqb k k = true.
Proof.
  destruct k; cbn; try apply Z.eqb_refl; try reflexivity.
  induction s as [|x s IH]; cbn; [reflexivity|]. now rewrite Z.eqb_refl.
Qed.

Lemma dict_get_set_same {V} (d : list (pv * V)) k v : dict_get (dict_set d k v) k = Some v.
Proof.
  induction d as [|[k' v'] t IH]; cbn [dict_set dict_get].
  - now rewrite py_eqb_refl.
  - destruct (py_eqb k' k) eqn:E; cbn [dict_get]; rewrite E; [reflexivity|exact IH].
Qed.

Lemma gl_DLABEL c g name : out_of_range_z (gl_dc g) = false ->
  dict_get (gl_st (get_labels_step c g (mkop O_DLABEL [tok_sym name]))) name = Some (SDataLabel (gl_dc g)).
Proof.
  intros H. unfold get_labels_step. cbn [o_cls o_args o_toks map t_val tok_sym gl_dc]. rewrite !H.
  cbn [andb gl_st]. apply dict_get_set_same.
Qed.
Lemma gl_LABEL c g name :
  dict_get (gl_st (get_labels_step c g (mkop O_LABEL [tok_sym name]))) name = Some (SLabel (gl_pc g)).
Proof.
  unfold get_labels_step. cbn [o_cls o_args o_toks map t_val tok_sym gl_dc].
  match goal with |- dict_get (gl_st (if ?b then _ else _)) _ = _ => destruct b end; cbn [gl_st];
    apply dict_get_set_same.
Qed.
