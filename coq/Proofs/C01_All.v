(* C01_All.v — the instruction-level theorems assembled into one statement over the whole
   generated dispatcher [Gen.Ops.exec]. *)
From Coq Require Import ZArith List Bool String Lia ZifyBool.
From Hera.Lib Require Import Py Machine Word16.
From Hera.Gen Require Import Utils Vm Ops.
From Hera.Spec Require Import ISA Wf.
From Hera.Model Require Import InstrOf.
From Hera.Proofs Require Import VmLemmas Tactics SpecLemmas C01_ALU C01_MUL C01_Shift C01_Misc C01_Branch.
Import ListNotations.
Open Scope Z_scope.

Ltac side := first [ assumption | unfold reg_ix; lia | lia ].

Ltac with_op_lemma k :=
  lazymatch goal with
  | |- context [I_AND _ _ _] => k exec_AND_ok
  | |- context [I_OR _ _ _] => k exec_OR_ok
  | |- context [I_XOR _ _ _] => k exec_XOR_ok
  | |- context [I_ADD _ _ _] => k exec_ADD_ok
  | |- context [I_SUB _ _ _] => k exec_SUB_ok
  | |- context [I_LSL _ _] => k exec_LSL_ok
  | |- context [I_LSR _ _] => k exec_LSR_ok
  | |- context [I_LSL8 _ _] => k exec_LSL8_ok
  | |- context [I_LSR8 _ _] => k exec_LSR8_ok
  | |- context [I_ASL _ _] => k exec_ASL_ok
  | |- context [I_ASR _ _] => k exec_ASR_ok
  | |- context [I_INC _ _] => k exec_INC_ok
  | |- context [I_DEC _ _] => k exec_DEC_ok
  | |- context [I_FSET5 _] => k exec_FSET5_ok
  | |- context [I_FSET4 _] => k exec_FSET4_ok
  | |- context [I_FON _] => k exec_FON_ok
  | |- context [I_FOFF _] => k exec_FOFF_ok
  | |- context [I_RSTRF _] => k exec_RSTRF_ok
  | |- context [I_SAVEF _] => k exec_SAVEF_ok
  | |- context [I_SETLO _ _] => k exec_SETLO_ok
  | |- context [I_SETHI _ _] => k exec_SETHI_ok
  | |- context [I_LOAD _ _ _] => k exec_LOAD_ok
  | |- context [I_STORE _ _ _] => k exec_STORE_ok
  | |- context [I_CALL _ _] => k exec_CALL_ok
  | |- context [I_RETURN _ _] => k exec_RETURN_ok
  | |- context [I_B cBR _] => k exec_BR_ok
  | |- context [I_BREL cBR _] => k exec_BRR_ok
  | |- context [I_B cBL _] => k exec_BL_ok
  | |- context [I_BREL cBL _] => k exec_BLR_ok
  | |- context [I_B cBGE _] => k exec_BGE_ok
  | |- context [I_BREL cBGE _] => k exec_BGER_ok
  | |- context [I_B cBLE _] => k exec_BLE_ok
  | |- context [I_BREL cBLE _] => k exec_BLER_ok
  | |- context [I_B cBG _] => k exec_BG_ok
  | |- context [I_BREL cBG _] => k exec_BGR_ok
  | |- context [I_B cBULE _] => k exec_BULE_ok
  | |- context [I_BREL cBULE _] => k exec_BULER_ok
  | |- context [I_B cBUG _] => k exec_BUG_ok
  | |- context [I_BREL cBUG _] => k exec_BUGR_ok
  | |- context [I_B cBZ _] => k exec_BZ_ok
  | |- context [I_BREL cBZ _] => k exec_BZR_ok
  | |- context [I_B cBNZ _] => k exec_BNZ_ok
  | |- context [I_BREL cBNZ _] => k exec_BNZR_ok
  | |- context [I_B cBC _] => k exec_BC_ok
  | |- context [I_BREL cBC _] => k exec_BCR_ok
  | |- context [I_B cBNC _] => k exec_BNC_ok
  | |- context [I_BREL cBNC _] => k exec_BNCR_ok
  | |- context [I_B cBS _] => k exec_BS_ok
  | |- context [I_BREL cBS _] => k exec_BSR_ok
  | |- context [I_B cBNS _] => k exec_BNS_ok
  | |- context [I_BREL cBNS _] => k exec_BNSR_ok
  | |- context [I_B cBV _] => k exec_BV_ok
  | |- context [I_BREL cBV _] => k exec_BVR_ok
  | |- context [I_B cBNV _] => k exec_BNV_ok
  | |- context [I_BREL cBNV _] => k exec_BNVR_ok
  end.

(* Every real instruction, on every well-formed state, with valid operands, at every point the
   definition constrains: the code model computes exactly the specified successor state
   (equality of whole states: nothing else changes).  For MUL in high-word mode the carry
   and overflow flags are some booleans [mc], [mv]. *)
Theorem exec_exact : forall o args i s,
  wf_vm s -> instr_of o args = Some i -> valid_instr i = true -> constrained i s = true ->
  exists mc mv, is_bool mc /\ is_bool mv /\
    exec o (map PI args) s = Ok (tt, step_with mc mv i s).
Proof.
  intros o args i s W Hi Hv Hc.
  destruct o; cbn [instr_of] in Hi;
    repeat match type of Hi with
           | match ?l with _ => _ end = _ => destruct l
           end;
    try discriminate Hi; injection Hi as <-;
    cbn [valid_instr constrained] in Hv, Hc; unfold reg_ok, in_range in Hv;
    try discriminate Hc;
    try (with_op_lemma ltac:(fun L =>
           cbv beta iota delta [exec step_with map];
           exists (PB false), (PB false);
           split; [eexists; reflexivity|]; split; [eexists; reflexivity|];
           apply L; side)).
  (* MUL *)
  cbv beta iota delta [exec step_with map].
  destruct (mul_high_mode s) eqn:Em.
  - apply exec_MUL_high_ok; side.
  - exists (PB false), (PB false). split; [eexists; reflexivity|]. split; [eexists; reflexivity|].
    apply exec_MUL_low_ok; side.
Qed.

(* ---- what the specification's helpers mean (so the theorem above is not vacuous) --------- *)
Lemma cells_get_cons k v c a : cells_get ((k, v) :: c) a = if k =? a then v else cells_get c a.
Proof. reflexivity. Qed.

Lemma mem_read_write_same m a v : 0 <= a -> mem_read (mem_write m a v) a = v.
Proof.
  intros Ha. unfold mem_read, mem_write. cbn [mlen cells]. rewrite cells_get_cons, Z.eqb_refl.
  destruct (a <? Z.max (mlen m) (a + 1)) eqn:E; [reflexivity|lia].
Qed.

Lemma mem_read_write_other m a b v :
  0 <= a -> 0 <= b -> a <> b -> wf_mem m -> mem_read (mem_write m a v) b = mem_read m b.
Proof.
  intros Ha Hb Hab [Hlen Hcells]. unfold mem_read, mem_write. cbn [mlen cells].
  rewrite cells_get_cons. destruct (a =? b) eqn:E; [lia|].
  destruct (b <? mlen m) eqn:E1.
  - destruct (b <? Z.max (mlen m) (a + 1)) eqn:E2; [reflexivity|lia].
  - destruct (b <? Z.max (mlen m) (a + 1)) eqn:E2; [|reflexivity].
    (* b is beyond the old length: no stored key equals b, so the cell reads 0 *)
    clear E2. induction (cells m) as [|[k w] t IH]; [reflexivity|].
    inversion Hcells as [|? ? [Hk _] Ht]; subst. cbn [cells_get fst] in *.
    destruct (k =? b) eqn:E3; [lia|]. apply IH. exact Ht.
Qed.

Lemma setreg_R0 v s : setreg 0 v s = s.
Proof. reflexivity. Qed.

(* a concrete, non-trivial state meets the hypotheses, and the theorem computes on it *)
Definition demo_state : vm :=
  mkvm [0; 65535; 1; 0; 0; 0; 0; 0; 0; 0; 0; 0; 0; 0; 0; 7] 3 49153
       (PB false) (PB false) (PB false) (PB true) (PB false)
       (mkmem 16 [(5, 42)]) (PB false) [] 0 (PB false) (PB false) (PB false) 0 0 PNone [] 0 []
       (mksettings 49153 true [] None).

Lemma demo_state_wf : wf_vm demo_state.
Proof.
  constructor; try (eexists; reflexivity).
  - split; [reflexivity|]. split; [|reflexivity].
    repeat constructor; unfold word; lia.
  - split; cbn; [lia|]. repeat constructor; cbn; unfold word; lia.
Qed.

Example demo_add_with_carry :
  (* 0xFFFF + 1 + carry-in: result 1, carry out, no signed overflow (-1 + 1 + 1 = 1) *)
  let s' := step (I_ADD 3 1 2) demo_state in
  getreg s' 3 = 1 /\ f_c s' = PB true /\ f_v s' = PB false /\ f_z s' = PB false /\ pc s' = 4.
Proof. vm_compute. repeat split; reflexivity. Qed.
