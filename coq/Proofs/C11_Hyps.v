(* C11_Hyps.v — the structural hypothesis of the debugger theorems ("within the expansion of one
   source operation only the last real operation may branch") as a boolean the correspondence
   evaluates on every loaded program, with its reflection lemma. *)
From Coq Require Import ZArith List Bool.
From Hera.Lib Require Import Py Machine.
From Hera.Gen Require Import Ops.
From Hera.Spec Require Import ISA.
From Hera.Model Require Import InstrOf Run Debugger.
From Hera.Proofs Require Import C11_Debug.
Import ListNotations.
Open Scope Z_scope.

Fixpoint ints_of (l : list pv) : option (list Z) :=
  match l with
  | [] => Some []
  | PI z :: t => match ints_of t with Some r => Some (z :: r) | None => None end
  | _ :: _ => None
  end.

Lemma ints_of_map l zs : ints_of l = Some zs -> l = map PI zs.
Proof.
  revert zs. induction l as [|a t IH]; intros zs H; cbn [ints_of] in H.
  - injection H as <-. reflexivity.
  - destruct a; try discriminate H. destruct (ints_of t) as [r|]; [|discriminate H].
    injection H as <-. cbn [map]. now rewrite (IH r eq_refl).
Qed.

Definition falls_through_b (o : rop) : bool :=
  match ints_of (r_args o) with
  | Some zs => match instr_of (r_op o) zs with
               | Some i => valid_instr i && seq_instr i
               | None => false
               end
  | None => false
  end.

Lemma falls_through_b_ok o : falls_through_b o = true -> falls_through o.
Proof.
  unfold falls_through_b, falls_through.
  destruct (ints_of (r_args o)) as [zs|] eqn:E; [|discriminate].
  destruct (instr_of (r_op o) zs) as [i|] eqn:I; [|discriminate].
  intros H. apply andb_true_iff in H as [V S].
  exists zs, i. repeat split; auto using ints_of_map.
Qed.

Fixpoint only_last_branches_b (code : dcode) : bool :=
  match code with
  | x :: ((y :: _) as t) =>
      (negb (Nat.eqb (dp_orig x) (dp_orig y)) || falls_through_b (dp_rop x)) && only_last_branches_b t
  | _ => true
  end.

Theorem only_last_branches_b_ok code : only_last_branches_b code = true -> only_last_branches code.
Proof.
  induction code as [|x t IH]; [constructor|].
  destruct t as [|y t']; [constructor|].
  change (only_last_branches_b (x :: y :: t')) with
    ((negb (Nat.eqb (dp_orig x) (dp_orig y)) || falls_through_b (dp_rop x)) && only_last_branches_b (y :: t')).
  intros H. apply andb_true_iff in H as [H1 H2].
  change (only_last_branches (x :: y :: t')) with
    ((dp_orig x = dp_orig y -> falls_through (dp_rop x)) /\ only_last_branches (y :: t')).
  split; [|apply IH, H2].
  intros E. apply orb_true_iff in H1 as [H1|H1].
  - apply negb_true_iff, Nat.eqb_neq in H1. contradiction.
  - now apply falls_through_b_ok.
Qed.
