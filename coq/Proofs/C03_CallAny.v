(* C03_CallAny.v — the exchange of CALL / RETURN as the regenerated code performs it, for any two operand registers, and
   its consequence for the label form of CALL: control arrives at the label whatever register Ra is (the full meaning
   theorem call_label_meaning leaves Ra = R13 / FP open). *)
From Coq Require Import ZArith List Bool Lia String.
From Hera.Lib Require Import Py Machine Word16.
From Hera.Gen Require Import Utils Vm Ops.
From Hera.Spec Require Import ISA Wf PseudoSpec.
From Hera.Model Require Import OpRep InstrOf.
From Hera.Proofs Require Import VmLemmas Tactics SpecLemmas C01_ALU C01_Misc C01_Branch C03_Pseudo C03_Label.
Import ListNotations.
Open Scope Z_scope.

(* the exchange of CALL / RETURN as the code performs it, for ANY two registers (the same one twice, FP itself) *)
Definition swap_gen (a b : Z) (s : vm) : vm :=
  let s2 := setreg b (pc s + 1) (upd_pc (getreg s b) s) in
  setreg a (getreg s2 14) (setreg 14 (getreg s2 a) s2).

Lemma swap_gen_ok s a b : List.length (regs s) = 16%nat -> is_bool (warned_ovf s) -> reg_ix a -> reg_ix b ->
  exec_CALL_via_CALL_AND_RETURN [PI a; PI b] s = Ok (tt, swap_gen a b s).
Proof.
  intros Hl Hwo Ha Hb.
  assert (H14 : reg_ix 14) by (unfold reg_ix; lia).
  unfold exec_CALL_via_CALL_AND_RETURN.
  mstep reflexivity. mstep reflexivity.
  mstep ltac:(apply vm_load_register_ok; assumption).
  mstep reflexivity. pynorm.
  store_step Hl Hwo.
  mstep ltac:(apply vm_load_register_ok; [apply regs_len_setreg; exact Hl | exact H14]).
  mstep ltac:(apply vm_load_register_ok; [apply regs_len_setreg; exact Hl | exact Ha]).
  store_step Hl Hwo.
  store_step Hl Hwo.
  unfold ret, swap_gen. reflexivity.
Qed.

Lemma pc_swap_gen a b s : pc (swap_gen a b s) = getreg s b.
Proof. unfold swap_gen. cbv zeta. rewrite !pc_setreg. reflexivity. Qed.

Lemma exec_CALL_gen s a b : wf_vm s -> reg_ix a -> reg_ix b ->
  exec_CALL [PI a; PI b] s = Ok (tt, swap_gen a b (upd_ers (ers s ++ [(getreg s b, pc s + 1)]) s)).
Proof.
  intros W Ha Hb. facts W.
  unfold exec_CALL.
  astep.
  mstep ltac:(apply vm_load_register_ok; assumption).
  mstep reflexivity.
  mstep reflexivity.
  mstep ltac:(apply swap_gen_ok; auto).
  reflexivity.
Qed.

(* CALL(Ra, label) arrives at the label, whatever register Ra is *)
Theorem call_label_arrives a l s : wf_vm s -> reg_ix a -> 0 <= l < 65536 ->
  exists s', run_ops [mkop O_SETLO [R 13; N (l mod 256)]; mkop O_SETHI [R 13; N (l / 256)]; mkop O_CALL [R a; R 13]] s
             = Ok (tt, s') /\ pc s' = l.
Proof.
  intros W Ha Hl.
  assert (H13 : reg_ix 13) by (unfold reg_ix; lia).
  assert (W1 : wf_vm (step_SETLO 13 (l mod 256) s)) by wf_after W (I_SETLO 13 (l mod 256)).
  assert (W2 : wf_vm (step_SETHI 13 (l / 256) (step_SETLO 13 (l mod 256) s))) by wf_after W1 (I_SETHI 13 (l / 256)).
  eexists. split.
  - expose_exec.
    mstep ltac:(apply exec_SETLO_ok; [exact W|exact H13|lia]).
    mstep ltac:(apply exec_SETHI_ok; [exact W1|exact H13|lia]).
    mstep ltac:(apply exec_CALL_gen; [exact W2|exact Ha|exact H13]).
    unfold ret. reflexivity.
  - rewrite pc_swap_gen.
    change (getreg (upd_ers ?x ?s) 13) with (getreg s 13).
    rewrite (set_prefix 13 (l mod 256) (l / 256) s W) by lia.
    replace (256 * (l / 256) + l mod 256) with l by lia.
    unfold adv. change (getreg (upd_pc ?x ?s) 13) with (getreg s 13).
    pose proof (wf_r _ W) as [HL _].
    apply getreg_setreg_same; try assumption; unfold word; lia.
Qed.

Lemma call_any_registers s a b : wf_vm s -> reg_ix a -> reg_ix b ->
  exec_CALL [PI a; PI b] s = Ok (tt, swap_gen a b (upd_ers (ers s ++ [(getreg s b, pc s + 1)]) s)) /\
  pc (swap_gen a b (upd_ers (ers s ++ [(getreg s b, pc s + 1)]) s)) = getreg s b.
Proof. intros W Ha Hb. split; [now apply exec_CALL_gen | now rewrite pc_swap_gen]. Qed.
