(* C17_Attach.v — what the type checker attaches each diagnostic to (Model/Preproc.v; the
   correspondence compares the attachment of every message with the real checker's): a fault of
   the k-th operand is attached to the k-th operand token, a wrong operand count to the operation. *)
From Coq Require Import ZArith List Bool String Lia.
From Hera.Lib Require Import Py.
From Hera.Gen Require Import Ops Tables.
From Hera.Model Require Import OpRep Preproc.
Import ListNotations.
Open Scope Z_scope.

Lemma argerr_loc e i : m_loc (argerr_msg e i) = LocTok i /\ m_err (argerr_msg e i) = true.
Proof. destruct e; split; reflexivity. Qed.

(* every message of the operand pass sits on the operand it is about, and that operand is faulty *)
Theorem operand_faults_on_operands ps ts st : forall i m, In m (check_arglist ps ts st i) ->
  exists k e, (k < List.length ts)%nat /\ (k < List.length ps)%nat /\
    check_arg (nth k ps P_REGISTER) (nth k ts dummy_tok) st = Some e /\
    m = argerr_msg e (i + k) /\ m_loc m = LocTok (i + k).
Proof.
  revert ts. induction ps as [|p ps IH]; intros [|t ts] i m H; cbn [check_arglist] in H; try contradiction.
  destruct (check_arg p t st) as [e|] eqn:E.
  - destruct H as [<-|H].
    + exists 0%nat, e. rewrite Nat.add_0_r. cbn [nth List.length]. repeat split; try lia; [exact E|apply argerr_loc].
    + destruct (IH ts (S i) m H) as (k & e' & L1 & L2 & C & -> & Lc).
      exists (S k), e'. replace (i + S k)%nat with (S i + k)%nat by lia. cbn [nth List.length].
      repeat split; try lia; [exact C|exact Lc].
  - destruct (IH ts (S i) m H) as (k & e' & L1 & L2 & C & -> & Lc).
    exists (S k), e'. replace (i + S k)%nat with (S i + k)%nat by lia. cbn [nth List.length].
    repeat split; try lia; [exact C|exact Lc].
Qed.

(* and conversely every faulty operand (within the common length) gets its message, on itself *)
Theorem faulty_operand_is_reported ps ts st : forall i k e, (k < List.length ts)%nat -> (k < List.length ps)%nat ->
  check_arg (nth k ps P_REGISTER) (nth k ts dummy_tok) st = Some e ->
  In (argerr_msg e (i + k)) (check_arglist ps ts st i).
Proof.
  revert ts. induction ps as [|p ps IH]; intros [|t ts] i k e L1 L2 C; cbn [List.length] in *; try lia.
  cbn [check_arglist]. destruct k as [|k].
  - cbn [nth] in C. rewrite C, Nat.add_0_r. left. reflexivity.
  - cbn [nth] in C. specialize (IH ts (S i) k e ltac:(lia) ltac:(lia) C).
    replace (i + S k)%nat with (S i + k)%nat by lia.
    destruct (check_arg p t st); [right|]; exact IH.
Qed.

(* the generic type-check: a message is either the operand-count message, attached to the operation,
   or an operand message attached to its operand *)
Theorem typecheck_attachment o st m : In m (default_typecheck o st) ->
  (m_loc m = LocOp /\ zlen (P_of (o_cls o)) <> zlen (o_toks o)) \/
  (exists k, m_loc m = LocTok k /\ (k < List.length (o_toks o))%nat).
Proof.
  unfold default_typecheck. intros H. apply in_app_or in H as [H|H].
  - left. destruct (zlen (P_of (o_cls o)) <? zlen (o_toks o)) eqn:A.
    + destruct H as [<-|[]]. split; [reflexivity|lia].
    + destruct (zlen (o_toks o) <? zlen (P_of (o_cls o))) eqn:B; [|destruct H].
      destruct H as [<-|[]]. split; [reflexivity|lia].
  - right. destruct (operand_faults_on_operands _ _ _ _ _ H) as (k & e & L1 & _ & _ & _ & Lc).
    exists k. split; [exact Lc|exact L1].
Qed.
