(* C19_DivMod.v — the Tiger library's div and mod are signed 16-bit division truncating towards
   zero and its remainder (the remainder has the sign of the dividend), for all arguments; zero
   divisors give zero. *)
From Coq Require Import ZArith Bool Lia.
From Hera.Model Require Import Stdlib.
Open Scope Z_scope.

Definition word (w : Z) : Prop := 0 <= w < 65536.
Definition signed (w : Z) : Z := if w <? 32768 then w else w - 65536.

Lemma from_u16_signed w : from_u16 w = signed w.
Proof. unfold from_u16, signed. destruct (w >=? 32768) eqn:A; destruct (w <? 32768) eqn:B; lia. Qed.

Theorem tiger_div_spec l r : signed r <> 0 ->
  tiger_div l r = (Z.quot (signed l) (signed r)) mod 65536.
Proof.
  intros Hr. unfold tiger_div. rewrite !from_u16_signed.
  set (a := signed l) in *. set (b := signed r) in *.
  destruct (b =? 0) eqn:B0; [lia|]. f_equal.
  rewrite (Z.quot_div a b Hr).
  destruct (Z.lt_trichotomy a 0) as [Ha|[Ha|Ha]]; destruct (Z.lt_trichotomy b 0) as [Hb|[Hb|Hb]]; try lia.
  - rewrite (Z.sgn_neg a Ha), (Z.sgn_neg b Hb). replace (a <? 0) with true by lia. replace (b <? 0) with true by lia. cbn [xorb]. lia.
  - rewrite (Z.sgn_neg a Ha), (Z.sgn_pos b Hb). replace (a <? 0) with true by lia. replace (b <? 0) with false by lia. cbn [xorb]. lia.
  - subst a. rewrite Ha. cbn [Z.abs Z.sgn]. rewrite Z.div_0_l by lia. destruct (xorb _ _); lia.
  - subst a. rewrite Ha. cbn [Z.abs Z.sgn]. rewrite Z.div_0_l by lia. destruct (xorb _ _); lia.
  - rewrite (Z.sgn_pos a Ha), (Z.sgn_neg b Hb). replace (a <? 0) with false by lia. replace (b <? 0) with true by lia. cbn [xorb]. lia.
  - rewrite (Z.sgn_pos a Ha), (Z.sgn_pos b Hb). replace (a <? 0) with false by lia. replace (b <? 0) with false by lia. cbn [xorb]. lia.
Qed.

Theorem tiger_mod_spec l r : signed r <> 0 ->
  tiger_mod l r = (Z.rem (signed l) (signed r)) mod 65536.
Proof.
  intros Hr. unfold tiger_mod. rewrite !from_u16_signed.
  set (a := signed l) in *. set (b := signed r) in *.
  destruct (b =? 0) eqn:B0; [lia|]. f_equal.
  rewrite (Z.rem_mod a b Hr).
  destruct (Z.lt_trichotomy a 0) as [Ha|[Ha|Ha]].
  - rewrite (Z.sgn_neg a Ha). replace (a <? 0) with true by lia. lia.
  - subst a. rewrite Ha. cbn [Z.abs Z.sgn Z.ltb Z.compare]. rewrite Z.mod_0_l by lia. lia.
  - rewrite (Z.sgn_pos a Ha). replace (a <? 0) with false by lia. lia.
Qed.

Theorem tiger_div_mod_zero l r : signed r = 0 -> tiger_div l r = 0 /\ tiger_mod l r = 0.
Proof.
  intros H. unfold tiger_div, tiger_mod. rewrite !from_u16_signed, H. split; reflexivity.
Qed.

(* the results are 16-bit words, and quotient and remainder recompose the dividend (mod 2^16) *)
Theorem tiger_div_mod_word l r : word (tiger_div l r) /\ word (tiger_mod l r).
Proof.
  unfold tiger_div, tiger_mod, word. destruct (from_u16 r =? 0); split; try lia; apply Z.mod_pos_bound; lia.
Qed.

Theorem tiger_div_mod_recompose l r : signed r <> 0 ->
  (signed r * signed (tiger_div l r) + signed (tiger_mod l r) - signed l) mod 65536 = 0.
Proof.
  intros Hr. rewrite (tiger_div_spec l r Hr), (tiger_mod_spec l r Hr).
  pose proof (Z.quot_rem' (signed l) (signed r)) as E.
  set (q := Z.quot (signed l) (signed r)) in *. set (m := Z.rem (signed l) (signed r)) in *.
  assert (S : forall x, exists k, signed (x mod 65536) = x + 65536 * k).
  { intros x. unfold signed. pose proof (Z.div_mod x 65536 ltac:(lia)) as D.
    pose proof (Z.mod_pos_bound x 65536 ltac:(lia)).
    destruct (x mod 65536 <? 32768); [exists (- (x / 65536))|exists (- (x / 65536) - 1)]; lia. }
  destruct (S q) as [k1 ->]. destruct (S m) as [k2 ->].
  replace (signed r * (q + 65536 * k1) + (m + 65536 * k2) - signed l) with (65536 * (signed r * k1 + k2)) by lia.
  rewrite Z.mul_comm. apply Z.mod_mul. lia.
Qed.
