(* C02_Debug.v — the debugger's state-changing commands and well-formedness of the machine.
   Stepping, flags, goto, restart, memory assignment and register assignment of a 16-bit word keep
   the machine well-formed; register assignment of a negative value does not (a finding: the
   witness below is replayed on the real shell by the check). *)
From Coq Require Import ZArith List Bool Lia String.
From Hera.Lib Require Import Py Machine Word16.
From Hera.Gen Require Import Utils Vm Ops.
From Hera.Spec Require Import ISA Wf.
From Hera.Model Require Import Run Debugger MiniParser Session.
From Hera.Proofs Require Import VmLemmas Tactics SpecLemmas C02_Step C02_Run C02_Init C11_Debug.
Import ListNotations.
Open Scope Z_scope.

Lemma dinv_self code d : wf_vm (d_vm d) -> dinv code (d_vm d) d.
Proof. intros W. split; [exact W|exists 0%nat; apply run_0]. Qed.

Theorem next_n_wf code fuel n d d' : code_ok (rops code) -> only_last_branches code ->
  wf_vm (d_vm d) -> next_n fuel code n d = Ok d' -> wf_vm (d_vm d').
Proof. intros C OL W E. exact (proj1 (next_n_inv code (d_vm d) fuel C OL n d d' (dinv_self code d W) E)). Qed.

Theorem step_wf code d d' : code_ok (rops code) -> only_last_branches code ->
  wf_vm (d_vm d) -> Session.do_step code d = Ok d' -> wf_vm (d_vm d').
Proof.
  intros C OL W E. unfold Session.do_step in E.
  destruct (d_finished code d); [injection E as <-; exact W|].
  destruct (opname_is _ O_CALL); [|injection E as <-; exact W].
  exact (proj1 (proj1 (next_into_inv code (d_vm d) d d' C OL (dinv_self code d W) E))).
Qed.

Theorem continue_wf code fuel d d' : code_ok (rops code) -> only_last_branches code ->
  wf_vm (d_vm d) -> do_continue fuel code d = Ok d' -> wf_vm (d_vm d').
Proof. intros C OL W E. exact (proj1 (do_continue_inv code (d_vm d) fuel d d' C OL (dinv_self code d W) E)). Qed.

Lemma set_flag_wf f b s : wf_vm s -> wf_vm (set_flag f b s).
Proof.
  intros W. destruct f; cbn [set_flag];
    [apply wf_upd_f_s|apply wf_upd_f_z|apply wf_upd_f_v|apply wf_upd_f_c|apply wf_upd_f_cb]; exact W.
Qed.

Theorem flags_wf fs b d d' : wf_vm (d_vm d) -> do_flags fs b d = Ok d' -> wf_vm (d_vm d').
Proof.
  intros W E. unfold do_flags in E. injection E as <-. cbn [d_vm].
  revert W. generalize (d_vm d). induction fs as [|f t IH]; intros s W; cbn [fold_left]; [exact W|].
  apply IH, set_flag_wf, W.
Qed.

Theorem goto_wf b d d' : wf_vm (d_vm d) -> do_goto b d = Ok d' -> wf_vm (d_vm d').
Proof. intros W E. unfold do_goto in E. injection E as <-. apply wf_upd_pc, W. Qed.

Theorem break_clear_wf d :
  (forall b d', do_break b d = Ok d' -> d_vm d' = d_vm d) /\
  (forall bs d', do_clear_list bs d = Ok d' -> d_vm d' = d_vm d) /\
  (forall d', do_clear_all d = Ok d' -> d_vm d' = d_vm d).
Proof. repeat split; intros; match goal with H : _ = Ok _ |- _ => injection H as <- end; reflexivity. Qed.

Lemma d_init_ok data s s1 s2 : vm_reset s = Ok (tt, s1) -> exec_all data s1 = Ok (tt, s2) -> d_init data s = Ok s2.
Proof. intros R X. unfold d_init, bind. rewrite R, X. reflexivity. Qed.
Lemma d_init_wf data d : Forall data_op_ok data -> init_ok (cfg (d_vm d)) ->
  0 <= data_start (cfg (d_vm d)) -> data_start (cfg (d_vm d)) + data_total data <= 65536 ->
  exists s2, d_init data (d_vm d) = Ok s2 /\ wf_vm s2.
Proof.
  intros D I H0 H1.
  destruct (vm_reset_wf (d_vm d) I) as (s1 & R & W1 & Hp & Hdc & Hc & _).
  assert (A : 0 <= dc s1) by (rewrite Hdc; exact H0).
  assert (B : dc s1 + data_total data <= 65536) by (rewrite Hdc; exact H1).
  destruct (exec_all_data_wf data D s1 W1 A B) as (s2 & X & W2 & _).
  exists s2. split; [exact (d_init_ok data (d_vm d) s1 s2 R X)|exact W2].
Qed.
Theorem restart_wf data d d' : Forall data_op_ok data -> init_ok (cfg (d_vm d)) ->
  0 <= data_start (cfg (d_vm d)) -> data_start (cfg (d_vm d)) + data_total data <= 65536 ->
  do_restart data d = Ok d' -> wf_vm (d_vm d').
Proof.
  intros D I H0 H1 E. destruct (d_init_wf data d D I H0 H1) as (s2 & Ei & W2).
  assert (H : do_restart data d = Ok (mkd s2 (d_bps d) 0)) by (unfold do_restart; rewrite Ei; reflexivity).
  rewrite H in E. injection E as <-. exact W2.
Qed.

(* assignment: the value written is what the expression evaluates to *)
Theorem assign_reg_wf st i e d d' rhs : wf_vm (d_vm d) -> reg_ix i ->
  eval (d_vm d) st e = Some rhs -> word rhs ->
  do_assign st (LReg i) e d = Ok d' -> wf_vm (d_vm d').
Proof.
  intros W Hi Ev Hw E. unfold do_assign in E. rewrite Ev in E.
  rewrite (vm_store_register_ok (d_vm d) i rhs (proj1 (wf_r _ W)) Hi (wf_wovf _ W)) in E.
  unfold keep_vm in E. injection E as <-. apply wf_setreg; assumption.
Qed.

Lemma to_u16_cases x :
  (-32768 <= x < 65536 /\ to_u16 (PI x) = Ok (PI (x mod 65536))) \/ (exists m, to_u16 (PI x) = Raise (HERAError m)).
Proof.
  destruct (Z_lt_dec x (-32768)) as [L|L]; [right|destruct (Z_lt_dec x 65536) as [H|H]; [left|right]].
  - unfold to_u16, py_or, py_ge, py_lt, truthy, as_int, rraise.
    destruct (x >=? 65536) eqn:A; [eexists; reflexivity|].
    destruct (x <? -32768) eqn:B; [eexists; reflexivity|lia].
  - split; [lia|apply to_u16_val; lia].
  - unfold to_u16, py_or, py_ge, py_lt, truthy, as_int, rraise.
    destruct (x >=? 65536) eqn:A; [eexists; reflexivity|lia].
Qed.

Theorem assign_mem_wf st a e d d' : wf_vm (d_vm d) ->
  do_assign st (LMem a) e d = Ok d' -> wf_vm (d_vm d').
Proof.
  intros W E. unfold do_assign in E.
  destruct (eval (d_vm d) st e) as [rhs|] eqn:Ev; [|injection E as <-; exact W].
  destruct (eval (d_vm d) st a) as [addr|] eqn:Ea; [|injection E as <-; exact W].
  unfold bind, lift in E.
  destruct (to_u16_cases addr) as [[Ra Ta]|[m Ta]]; rewrite Ta in E;
    [|unfold keep_vm in E; injection E as <-; exact W].
  destruct (to_u16_cases rhs) as [[Rv Tv]|[m Tv]]; rewrite Tv in E;
    [|unfold keep_vm in E; injection E as <-; exact W].
  pose proof (wf_m _ W) as [[Hm0 Hm1] Hcells].
  rewrite (vm_store_memory_ok (d_vm d) (addr mod 65536) (rhs mod 65536)) in E
    by (try apply Z.mod_pos_bound; lia).
  unfold keep_vm in E. injection E as <-. cbn [d_vm].
  apply wf_upd_mem; [exact W|].
  apply wf_mem_write; [exact (wf_m _ W)|apply Z.mod_pos_bound; lia|unfold word; apply Z.mod_pos_bound; lia].
Qed.

Theorem assign_pc_wf st e d d' : wf_vm (d_vm d) -> do_assign st LPc e d = Ok d' -> wf_vm (d_vm d').
Proof.
  intros W E. unfold do_assign in E.
  destruct (eval (d_vm d) st e) as [rhs|]; injection E as <-; [apply wf_upd_pc|]; exact W.
Qed.

(* ---- the finding: a negative value assigned to a register is stored as it is --------------------------- *)
Definition d9_state : vm :=
  mkvm (repeat 0 16) 0 49153 (PB false) (PB false) (PB false) (PB false) (PB false) (mkmem 0 [])
       (PB false) [] 0 (PB false) (PB false) (PB false) 0 0 PNone [] 0 [] (mksettings 49153 true [] None).
Definition d9_expr : expr := ENeg (EInt 2748).          (* -0xabc *)

Theorem assign_reg_negative_refuted :
  wf_vmb d9_state = true /\
  exists d', do_assign [] (LReg 12) d9_expr (mkd d9_state [] 0) = Ok d' /\
             getreg (d_vm d') 12 = -2748 /\ wf_vmb (d_vm d') = false.
Proof. split; [vm_compute; reflexivity|]. eexists. split; [vm_compute; reflexivity|]. split; vm_compute; reflexivity. Qed.
