(* C14_Pratt.v — soundness of the Pratt parser against the stratified grammar: whatever
   match_expr accepts at precedence p is a sum (p < 1), a product (p = 1) or a unary expression
   (p >= 2) of Spec/ExprGrammar.v, with exactly the tree the grammar assigns — usual precedence,
   left associativity. *)
From Coq Require Import ZArith List Bool Lia.
From Hera.Model Require Import MiniParser.
From Hera.Spec Require Import ExprGrammar.
Import ListNotations.
Open Scope Z_scope.

Definition Level (p : Z) (ts : list etok) (e : expr) (r : list etok) : Prop :=
  if p <? 1 then Sum ts e r else if p <? 2 then Prod ts e r else Unary ts e r.

Lemma cur_cons ts t : cur ts = t -> t <> E_EOF -> ts = t :: adv ts.
Proof. destruct ts as [|x r]; cbn [cur adv]; intros H N; [congruence|now subst]. Qed.

Lemma ProdTail_end acc ts e r : ProdTail acc ts e r -> starts_mul r = false.
Proof. induction 1 as [acc ts H|acc o ts u ts' e r Ho Hu Ht IH]; [exact H|exact IH]. Qed.

Lemma Prod_end ts e r : Prod ts e r -> starts_mul r = false.
Proof. intros [ts0 u ts' e0 r0 _ T]. eapply ProdTail_end, T. Qed.

Lemma ProdTail_stuck acc ts e r : starts_mul ts = false -> ProdTail acc ts e r -> e = acc /\ r = ts.
Proof.
  intros S T. inversion T as [a t H|a o t u t' e0 r0 Ho Hu Ht]; subst; [split; reflexivity|].
  unfold starts_mul in S. cbn [cur] in S. congruence.
Qed.

Lemma prec_mul o : is_mul o = true -> prec_of o = 2.  Proof. destruct o; cbn; congruence. Qed.
Lemma prec_add o : is_mul o = false -> prec_of o = 1 /\ is_add o = true.  Proof. destruct o; cbn; auto; congruence. Qed.

Section Loop.
  Variable rec : Z -> list etok -> pres.
  Hypothesis Hrec : forall p ts e r, rec p ts = POk e r -> Level p ts e r.

  Lemma loop_hi prec n lhs ts e r : 2 <= prec -> infix_loop rec prec n lhs ts = POk e r -> e = lhs /\ r = ts.
  Proof.
    intros Hp. destruct n as [|m]; cbn [infix_loop]; [discriminate|].
    destruct (cur ts) as [| | |o| | | | | | |] eqn:C; try (intros H; injection H as <- <-; split; reflexivity).
    assert (prec <? prec_of o = false) as -> by (destruct o; cbn; lia).
    intros H; injection H as <- <-; split; reflexivity.
  Qed.

  Lemma loop_1 n : forall lhs ts e r, infix_loop rec 1 n lhs ts = POk e r -> ProdTail lhs ts e r.
  Proof.
    induction n as [|m IH]; intros lhs ts e r; cbn [infix_loop]; [discriminate|].
    destruct (cur ts) as [| | |o| | | | | | |] eqn:C;
      try (intros H; injection H as <- <-; apply PT_done; unfold starts_mul; now rewrite C).
    destruct (is_mul o) eqn:M.
    - rewrite (prec_mul o M). change (1 <? 2) with true. cbv iota.
      destruct (rec 2 (adv ts)) as [rhs rest| |] eqn:R; try discriminate.
      intros H. rewrite (cur_cons ts (E_OP o) C ltac:(discriminate)).
      eapply PT_more; [exact M|exact (Hrec 2 _ _ _ R)|apply IH, H].
    - destruct (prec_add o M) as [-> _]. change (1 <? 1) with false. cbv iota.
      intros H; injection H as <- <-. apply PT_done. unfold starts_mul. now rewrite C.
  Qed.

  Lemma loop_0 prec n : prec < 1 -> forall lhs ts e r, infix_loop rec prec n lhs ts = POk e r ->
    exists mid ts1, ProdTail lhs ts mid ts1 /\ SumTail mid ts1 e r.
  Proof.
    intros Hp. induction n as [|m IH]; intros lhs ts e r; cbn [infix_loop]; [discriminate|].
    destruct (cur ts) as [| | |o| | | | | | |] eqn:C;
      try (intros H; injection H as <- <-; exists lhs, ts; split;
           [apply PT_done|apply ST_done]; unfold starts_mul, starts_add; now rewrite C).
    assert (prec <? prec_of o = true) as -> by (destruct o; cbn; lia). cbv iota.
    destruct (rec (prec_of o) (adv ts)) as [rhs rest| |] eqn:R; try discriminate.
    intros H. destruct (IH _ _ _ _ H) as (mid & ts1 & T & S).
    pose proof (cur_cons ts (E_OP o) C ltac:(discriminate)) as Ets.
    destruct (is_mul o) eqn:M.
    - rewrite (prec_mul o M) in R. exists mid, ts1. split; [|exact S].
      rewrite Ets. eapply PT_more; [exact M|exact (Hrec 2 _ _ _ R)|exact T].
    - destruct (prec_add o M) as [P1 A]. rewrite P1 in R. pose proof (Hrec 1 _ _ _ R) as Pr.
      change (Level 1 (adv ts) rhs rest) with (Prod (adv ts) rhs rest) in Pr.
      destruct (ProdTail_stuck _ _ _ _ (Prod_end _ _ _ Pr) T) as [-> ->].
      exists lhs, ts. split.
      + apply PT_done. unfold starts_mul. now rewrite C.
      + rewrite Ets. eapply ST_more; [exact A|exact Pr|exact S].
  Qed.

  (* after a unary expression, the loop completes it to the level asked for *)
  Lemma continue_sound prec n ts0 u ts e r :
    Unary ts0 u ts -> infix_loop rec prec n u ts = POk e r -> Level prec ts0 e r.
  Proof.
    intros U H. unfold Level.
    destruct (prec <? 1) eqn:P1.
    - apply Z.ltb_lt in P1. destruct (loop_0 prec n P1 _ _ _ _ H) as (mid & ts1 & T & S).
      eapply S_intro; [eapply P_intro; [exact U|exact T]|exact S].
    - apply Z.ltb_ge in P1. destruct (prec <? 2) eqn:P2.
      + apply Z.ltb_lt in P2. assert (prec = 1) as -> by lia.
        eapply P_intro; [exact U|eapply loop_1, H].
      + apply Z.ltb_ge in P2. destruct (loop_hi prec n _ _ _ _ P2 H) as [-> ->]. exact U.
  Qed.
End Loop.

Theorem match_expr_sound fuel : forall p ts e r, match_expr fuel p ts = POk e r -> Level p ts e r.
Proof.
  induction fuel as [|f IH]; intros p ts e r; cbn [match_expr]; [discriminate|].
  destruct (cur ts) as [v|x|s|o| | | | | | |] eqn:C; try discriminate.
  - destruct v as [v|]; [|discriminate]. intros H.
    eapply (continue_sound _ IH); [|exact H]. rewrite (cur_cons ts _ C ltac:(discriminate)) at 1. constructor.
  - destruct x as [x|]; [|discriminate]. intros H.
    eapply (continue_sound _ IH); [|exact H]. rewrite (cur_cons ts _ C ltac:(discriminate)) at 1. constructor.
  - intros H. eapply (continue_sound _ IH); [|exact H]. rewrite (cur_cons ts _ C ltac:(discriminate)) at 1. constructor.
  - destruct o; try discriminate.
    destruct (match_expr f PREC_PREFIX (adv ts)) as [a rest| |] eqn:R; try discriminate. intros H.
    eapply (continue_sound _ IH); [|exact H]. rewrite (cur_cons ts _ C ltac:(discriminate)) at 1.
    apply U_neg. exact (IH _ _ _ _ R).
  - destruct (match_expr f PREC_PREFIX (adv ts)) as [a rest| |] eqn:R; try discriminate. intros H.
    eapply (continue_sound _ IH); [|exact H]. rewrite (cur_cons ts _ C ltac:(discriminate)) at 1.
    apply U_at. exact (IH _ _ _ _ R).
  - destruct (match_expr f 0 (adv ts)) as [a rest| |] eqn:R; try discriminate.
    destruct (cur rest) eqn:C2; try discriminate. intros H.
    eapply (continue_sound _ IH); [|exact H]. rewrite (cur_cons ts _ C ltac:(discriminate)) at 1.
    apply U_paren. rewrite <- (cur_cons rest _ C2 ltac:(discriminate)). exact (IH _ _ _ _ R).
Qed.

(* a whole expression (what print / assignment parse): a sum, and what follows does not continue it *)
Corollary parse_expr_sound fuel ts e r : match_expr fuel 0 ts = POk e r ->
  Sum ts e r /\ starts_add r = false /\ starts_mul r = false.
Proof.
  intros H. pose proof (match_expr_sound fuel 0 ts e r H) as S. change (Sum ts e r) in S.
  split; [exact S|]. destruct S as [ts0 p ts' e0 r0 _ T].
  clear -T. induction T as [acc ts A M|acc o ts p ts' e r Ho Hp Ht IH]; [split; assumption|exact IH].
Qed.
