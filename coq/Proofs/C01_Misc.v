(* C01_Misc.v — INC DEC, flag instructions, SETLO SETHI, LOAD STORE *)
From Coq Require Import ZArith List Bool String Lia ZifyBool.
From Hera.Lib Require Import Py Machine Word16.
From Hera.Gen Require Import Utils Vm Ops.
From Hera.Spec Require Import ISA Wf.
From Hera.Proofs Require Import VmLemmas Tactics SpecLemmas C01_ALU C01_Shift.
Import ListNotations.
Open Scope Z_scope.

Ltac Zify.zify_post_hook ::= Z.to_euclidean_division_equations.

Ltac facts W :=
  pose proof (wf_vm_flags _ W) as Hf;
  let Hl := fresh "Hl" in let Hwo := fresh "Hwo" in
  pose proof (match W with mkwf _ (conj Hl _) _ _ _ _ _ _ _ _ => Hl end) as Hl;
  pose proof (wf_wovf _ W) as Hwo.

Ltac store_step Hl Hwo :=
  mstep ltac:(apply vm_store_register_ok;
              [ repeat apply regs_len_setreg; exact Hl | assumption
              | repeat apply warned_ovf_setreg_bool; exact Hwo ]).

(* ---- argument lists --------------------------------------------------------------------- *)
Lemma args1_0 a : args_at [a] 0 = ret a.            Proof. reflexivity. Qed.
Lemma args2_0 a b : args_at [a; b] 0 = ret a.       Proof. reflexivity. Qed.
Lemma args2_1 a b : args_at [a; b] 1 = ret b.       Proof. reflexivity. Qed.
Lemma args3_0 a b c : args_at [a; b; c] 0 = ret a.  Proof. reflexivity. Qed.
Lemma args3_1 a b c : args_at [a; b; c] 1 = ret b.  Proof. reflexivity. Qed.
Lemma args3_2 a b c : args_at [a; b; c] 2 = ret c.  Proof. reflexivity. Qed.
Ltac args_simpl := rewrite ?args1_0, ?args2_0, ?args2_1, ?args3_0, ?args3_1, ?args3_2.

Ltac astep := mstep ltac:(args_simpl; reflexivity).

Theorem exec_INC_ok s d v : wf_vm s -> reg_ix d -> 1 <= v <= 64 ->
  exec_INC [PI d; PI v] s = Ok (tt, step_INC d v s).
Proof.
  intros W Hd Hv. facts W. pose proof (getreg_word _ _ W Hd) as Hx.
  unfold exec_INC.
  mstep reflexivity.
  mstep ltac:(apply vm_load_register_ok; assumption).
  rewrite ?from_u16_PI. pynorm. rewrite land_65535.
  store_step Hl Hwo.
  mstep ltac:(apply vm_set_zero_and_sign_ok; unfold word; apply Z.mod_pos_bound; lia).
  mstep reflexivity. mstep reflexivity. mstep reflexivity. mstep reflexivity.
  unfold ret, step_INC, next, fits16s, sgn16.
  set (x := getreg s d) in *. unfold word in Hx.
  rewrite from_u16_PI. pynorm. autorewrite with spec.
  S_eq.
Qed.

Theorem exec_DEC_ok s d v : wf_vm s -> reg_ix d -> 1 <= v <= 64 ->
  exec_DEC [PI d; PI v] s = Ok (tt, step_DEC d v s).
Proof.
  intros W Hd Hv. facts W. pose proof (getreg_word _ _ W Hd) as Hx.
  unfold exec_DEC.
  mstep reflexivity.
  mstep ltac:(apply vm_load_register_ok; assumption).
  rewrite ?from_u16_PI. pynorm. rewrite land_65535.
  mstep ltac:(apply to_u16_word; pose proof (Z.mod_pos_bound (getreg s d - v) 65536); lia).
  rewrite Z.mod_mod by lia.
  store_step Hl Hwo.
  mstep ltac:(apply vm_set_zero_and_sign_ok; unfold word; apply Z.mod_pos_bound; lia).
  mstep reflexivity. mstep reflexivity. mstep reflexivity. mstep reflexivity.
  unfold ret, step_DEC, next, fits16s, sgn16.
  set (x := getreg s d) in *. unfold word in Hx.
  rewrite from_u16_PI. pynorm. autorewrite with spec.
  S_eq.
Qed.

(* ---- the five flag bits of an immediate or register value ------------------------------ *)
Lemma fbit0 v : word v -> negb (Z.land v 1 =? 0) = bit v 0.
Proof. intros H. change 1 with (2 ^ 0). rewrite land_pow2_word by (lia || exact H). now rewrite negb_involutive. Qed.
Lemma fbit1 v : word v -> negb (Z.land v 2 =? 0) = bit v 1.
Proof. intros H. change 2 with (2 ^ 1) at 1. rewrite land_pow2_word by (lia || exact H). now rewrite negb_involutive. Qed.
Lemma fbit2 v : word v -> negb (Z.land v 4 =? 0) = bit v 2.
Proof. intros H. change 4 with (2 ^ 2). rewrite land_pow2_word by (lia || exact H). now rewrite negb_involutive. Qed.
Lemma fbit3 v : word v -> negb (Z.land v 8 =? 0) = bit v 3.
Proof. intros H. change 8 with (2 ^ 3). rewrite land_pow2_word by (lia || exact H). now rewrite negb_involutive. Qed.
Lemma fbit4 v : word v -> negb (Z.land v 16 =? 0) = bit v 4.
Proof. intros H. change 16 with (2 ^ 4). rewrite land_pow2_word by (lia || exact H). now rewrite negb_involutive. Qed.
Ltac fbits H := rewrite ?(fbit0 _ H), ?(fbit1 _ H), ?(fbit2 _ H), ?(fbit3 _ H), ?(fbit4 _ H).

Theorem exec_FSET5_ok s v : wf_vm s -> 0 <= v < 32 ->
  exec_FSET5 [PI v] s = Ok (tt, step_FSET5 v s).
Proof.
  intros W Hv. assert (Hw : word v) by (unfold word; lia).
  destruct s. unfold exec_FSET5, step_FSET5, set_flags5, next. args_simpl. msimpl. fbits Hw. reflexivity.
Qed.

Theorem exec_FSET4_ok s v : wf_vm s -> 0 <= v < 16 ->
  exec_FSET4 [PI v] s = Ok (tt, step_FSET4 v s).
Proof.
  intros W Hv. assert (Hw : word v) by (unfold word; lia).
  destruct s. unfold exec_FSET4, step_FSET4, next. args_simpl. msimpl. fbits Hw. reflexivity.
Qed.

Theorem exec_FON_ok s v : wf_vm s -> 0 <= v < 32 ->
  exec_FON [PI v] s = Ok (tt, step_FON v s).
Proof.
  intros W Hv. assert (Hw : word v) by (unfold word; lia).
  pose proof (wf_vm_flags _ W) as Hf. clear W. expose_state s Hf.
  unfold exec_FON, step_FON, next, flag. args_simpl. msimpl. fbits Hw.
  destruct bs, bz, bv, bc, bcb; reflexivity.
Qed.

Theorem exec_FOFF_ok s v : wf_vm s -> 0 <= v < 32 ->
  exec_FOFF [PI v] s = Ok (tt, step_FOFF v s).
Proof.
  intros W Hv. assert (Hw : word v) by (unfold word; lia).
  pose proof (wf_vm_flags _ W) as Hf. clear W. expose_state s Hf.
  unfold exec_FOFF, step_FOFF, next, flag. args_simpl. msimpl. fbits Hw.
  destruct bs, bz, bv, bc, bcb; reflexivity.
Qed.

Theorem exec_RSTRF_ok s d : wf_vm s -> reg_ix d ->
  exec_RSTRF [PI d] s = Ok (tt, step_RSTRF d s).
Proof.
  intros W Hd. facts W. pose proof (getreg_word _ _ W Hd) as Hx.
  unfold exec_RSTRF.
  mstep reflexivity.
  mstep ltac:(apply vm_load_register_ok; assumption).
  unfold step_RSTRF, set_flags5, next.
  set (x := getreg s d) in *. clearbody x.
  destruct s. msimpl. fbits Hx. reflexivity.
Qed.

Theorem exec_SAVEF_ok s d : wf_vm s -> reg_ix d ->
  exec_SAVEF [PI d] s = Ok (tt, step_SAVEF d s).
Proof.
  intros W Hd. facts W.
  unfold exec_SAVEF.
  do 5 mstep reflexivity.
  destruct Hf as ([bs Es] & [bz Ez] & [bv Ev] & [bc Ec] & [bcb Ecb]).
  mstep reflexivity.
  rewrite Es, Ez, Ev, Ec, Ecb. pynorm.
  store_step Hl Hwo.
  mstep reflexivity. mstep reflexivity.
  unfold ret, step_SAVEF, next, flags_word, flag. rewrite Es, Ez, Ev, Ec, Ecb. cbn [truthy].
  autorewrite with spec. reflexivity.
Qed.

Theorem exec_SETLO_ok s d v : wf_vm s -> reg_ix d -> -128 <= v < 256 ->
  exec_SETLO [PI d; PI v] s = Ok (tt, step_SETLO d v s).
Proof.
  intros W Hd Hv. facts W.
  unfold exec_SETLO.
  astep. pynorm.
  destruct (v >? 127) eqn:E; cbv beta iota.
  - astep.
    mstep ltac:(apply to_u16_word; lia).
    store_step Hl Hwo.
    mstep reflexivity. mstep reflexivity.
    unfold ret, step_SETLO, next, sext8, byte_of. autorewrite with spec. S_eq.
  - astep.
    mstep ltac:(apply to_u16_word; lia).
    store_step Hl Hwo.
    mstep reflexivity. mstep reflexivity.
    unfold ret, step_SETLO, next, sext8, byte_of. autorewrite with spec. S_eq.
Qed.

Theorem exec_SETHI_ok s d v : wf_vm s -> reg_ix d -> -128 <= v < 256 ->
  exec_SETHI [PI d; PI v] s = Ok (tt, step_SETHI d v s).
Proof.
  intros W Hd Hv. facts W.
  unfold exec_SETHI.
  mstep reflexivity.
  mstep ltac:(apply vm_load_register_ok; assumption).
  pynorm. rewrite !land_255, shiftl_mul by lia. change (2 ^ 8) with 256.
  store_step Hl Hwo.
  mstep reflexivity. mstep reflexivity.
  unfold ret, step_SETHI, next, byte_of. autorewrite with spec. S_eq.
Qed.

(* ---- memory ----------------------------------------------------------------------------- *)
Lemma cells_get_word c a :
  Forall (fun kv : Z * Z => word (snd kv)) c -> word (cells_get c a).
Proof.
  induction c as [|[k v] t IH]; intros H; cbn [cells_get]; [unfold word; lia|].
  inversion H; subst. destruct (k =? a); auto.
Qed.

Lemma mem_read_word m a : wf_mem m -> word (mem_read m a).
Proof.
  intros [_ H]. unfold mem_read. destruct (a <? mlen m); [|unfold word; lia].
  apply cells_get_word. eapply Forall_impl; [|exact H]. cbv beta. tauto.
Qed.

Theorem exec_LOAD_ok s d o b : wf_vm s -> reg_ix d -> 0 <= o < 32 -> reg_ix b ->
  exec_LOAD [PI d; PI o; PI b] s = Ok (tt, step_LOAD d o b s).
Proof.
  intros W Hd Ho Hb. facts W. pose proof (getreg_word _ _ W Hb) as Hx.
  pose proof (wf_m _ W) as Hm.
  unfold exec_LOAD.
  mstep reflexivity.
  mstep ltac:(apply vm_load_register_ok; assumption).
  pynorm. rewrite land_65535.
  mstep ltac:(apply vm_load_memory_ok; apply Z.mod_pos_bound; lia).
  mstep ltac:(apply vm_set_zero_and_sign_ok; apply mem_read_word; exact Hm).
  store_step Hl Hwo.
  mstep reflexivity. mstep reflexivity.
  reflexivity.
Qed.

Theorem exec_STORE_ok s d o b : wf_vm s -> reg_ix d -> 0 <= o < 32 -> reg_ix b ->
  exec_STORE [PI d; PI o; PI b] s = Ok (tt, step_STORE d o b s).
Proof.
  intros W Hd Ho Hb. facts W. pose proof (wf_m _ W) as [[Hm _] _].
  unfold exec_STORE.
  mstep reflexivity.
  mstep ltac:(apply vm_load_register_ok; assumption).
  mstep ltac:(apply vm_load_register_ok; assumption).
  pynorm. rewrite land_65535.
  mstep ltac:(apply vm_store_memory_ok; [apply Z.mod_pos_bound; lia | exact Hm]).
  mstep reflexivity. mstep reflexivity.
  reflexivity.
Qed.
