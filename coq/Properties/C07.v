(* C07 — the front end is total (PARTIAL: the lexer, conditional compilation and include
   processing are theorems on hand models tied to the code by correspondence; the parser, the
   type checker and the preprocessor are decided by the survival oracle of the check).
   Model/Lexer.v records a read past the end of the text (an IndexError in hera/lexer.py) in the
   flag [oob] instead of making it impossible. *)
From Coq Require Import ZArith List Bool.
From Hera.Model Require Import Lexer Ifdef Include.
From Hera.Proofs Require Import C07_Lexer C16_Ifdef C16_Include.
Import ListNotations.

(* lexing any text: never reads past the end, ends with EOF after at most |text|+1 tokens *)
Theorem C07_lexer_total : forall text ts ws sf, lex text = (ts, ws, sf) ->
  oob sf = false /\
  (exists ts' e, ts = ts' ++ [e] /\ t_type e = T_EOF /\ Forall (fun t => t_type t <> T_EOF) ts') /\
  (List.length ts <= S (List.length text))%nat.
Proof. exact lex_in_bounds_and_terminates. Qed.
Print Assumptions C07_lexer_total.

(* every token but EOF consumes at least one character; the lexer only ever moves forward *)
Theorem C07_next_token_progress : forall s0 t s' ws, next_token s0 = (t, s', ws) ->
  within s0 s' /\ tok_at s0 t /\ (t_type t = T_EOF \/ (List.length (rest s') < List.length (rest s0))%nat).
Proof. exact next_token_spec. Qed.
Print Assumptions C07_next_token_progress.

(* conditional compilation is a total function of the lines, one output line per input line *)
Theorem C07_ifdef_total : forall cls lines st, List.length (run cls st lines) = List.length lines.
Proof. exact ifdef_keeps_line_count. Qed.
Print Assumptions C07_ifdef_total.

(* include processing terminates on every include graph *)
Theorem C07_includes_terminate : forall fs, fs_ok fs -> fs <> [] -> exists out, expand_main fs = Some out.
Proof. exact include_processing_terminates. Qed.
Print Assumptions C07_includes_terminate.
