(* C04 — labels, data labels and constants resolve to the right place in every mode.
   Theorems over Model/Preproc.v (hand model of hera/checker.py, tied by correspondence) and the
   regenerated operation_length / convert / P tables.
   Proved here: the two passes agree on every type-checked operation's expansion length (the
   obligation whose failure shifts every later label), relative label branches are accepted exactly
   when the distance fits and then carry it, and each data statement advances the data counter by
   its cell count; and, over whole programs: the two passes stay in lockstep (C04_lockstep), the
   program counter of convert_ops is the number of instructions emitted so far, and therefore every
   label of an accepted program denotes the index of the next emitted instruction, in every mode
   (C04_layout).  Still decided by the correspondence + oracle only: persistence of a label's
   entry in the final symbol table (no later redeclaration) and the data-label layout over whole
   programs (PARTIAL). *)
From Coq Require Import ZArith List Bool String.
From Hera.Lib Require Import Py.
From Hera.Gen Require Import Ops Tables Convert.
From Hera.Model Require Import OpRep Bitvec Preproc.
From Hera.Proofs Require Import C04_Oplen C04_Layout.
Import ListNotations.
Open Scope Z_scope.

Theorem C04_oplen_eq_convert : forall c ts st st' ts' l,
  counts_as_code c = true ->
  has_errors (default_typecheck (mkop c ts) st) = false ->
  subst_tokens ts st' = Ok ts' ->
  convert_full (mkop c ts') = Ok l ->
  zlen l = operation_length (mkop c ts).
Proof. exact oplen_eq_convert. Qed.
Print Assumptions C04_oplen_eq_convert.

Theorem C04_relbranch_offset_partial : forall st g i c name rest tv,
  is_relative_branch c = true ->
  (dict_get st name = Some (SLabel tv) \/ dict_get st name = Some (SDataLabel tv)) ->
  let o := mkop c (tok_sym name :: rest) in
  let jump := tv - cv_pc g in
  convert_step st (Ok g) (i, o) =
  if (jump <? -128) || (jump >=? 128) then
    (new <~ convert_full o ;;
     Ok (mkcv (cv_out g ++ map (fun n => mkcop n i) new)
              (if is_data_op c then cv_pc g else cv_pc g + zlen new)
              (cv_msgs g ++ [err "label is too far for a relative branch" [] (LocTok 0)])))%R
  else
    (new <~ convert_full (mkop c (tok_int (PI jump) :: rest)) ;;
     Ok (mkcv (cv_out g ++ map (fun n => mkcop n i) new)
              (if is_data_op c then cv_pc g else cv_pc g + zlen new) (cv_msgs g)))%R.
Proof. exact relbranch_step. Qed.
Print Assumptions C04_relbranch_offset_partial.

Theorem C04_data_layout_partial :
  (forall c g ts, gl_dc (get_labels_step c g (mkop O_INTEGER ts)) = gl_dc g + 1) /\
  (forall c g s, gl_dc (get_labels_step c g (mkop O_LP_STRING [tok_str (PS s)])) = gl_dc g + zlen s + 1) /\
  (forall c g n, gl_dc (get_labels_step c g (mkop O_DSKIP [tok_int (PI n)])) = gl_dc g + n) /\
  (forall c g name, out_of_range_z (gl_dc g) = false ->
     dict_get (gl_st (get_labels_step c g (mkop O_DLABEL [tok_sym name]))) name = Some (SDataLabel (gl_dc g))).
Proof. exact (conj gl_INTEGER (conj gl_LP_STRING (conj gl_DSKIP gl_DLABEL))). Qed.
Print Assumptions C04_data_layout_partial.

(* ---- whole programs -------------------------------------------------------------------------------------- *)
(* a program whose type-check reports no error consists of operations that are individually clean *)
Theorem C04_accepted_is_clean : forall c ops st msgs, typecheck c ops = (st, msgs) -> has_errors msgs = false ->
  Forall clean_op ops.
Proof. exact accepted_is_clean. Qed.
Print Assumptions C04_accepted_is_clean.

(* after any program, the counter get_labels reached = the counter convert_ops reached *)
Theorem C04_lockstep : forall c st ops, Forall clean_op ops -> forall i g cg cgf,
  gl_pc g = cv_pc cg ->
  fold_left (convert_step st) (srcs c ops i) (Ok cg) = Ok cgf ->
  gl_pc (fold_left (get_labels_step c) ops g) = cv_pc cgf.
Proof. exact lockstep. Qed.
Print Assumptions C04_lockstep.

(* every label is the index of the next emitted instruction: the instructions emitted for the
   operations before the label are a prefix of the output, and the label's value is their number
   (data statements and, in assemble / preprocess mode, debugging operations do not count) *)
Theorem C04_layout : forall c st ops pre name post cgf,
  ops = pre ++ mkop O_LABEL [tok_sym name] :: post ->
  Forall clean_op ops ->
  fold_left (convert_step st) (srcs c ops 0) (Ok (mkcv [] 0 [])) = Ok cgf ->
  exists cgp, fold_left (convert_step st) (srcs c pre 0) (Ok (mkcv [] 0 [])) = Ok cgp /\
    (exists rest, cv_out cgf = cv_out cgp ++ rest) /\
    let g := fold_left (get_labels_step c) pre (mkgl [] [] 0 (cs_data_start c) []) in
    dict_get (gl_st (get_labels_step c g (mkop O_LABEL [tok_sym name]))) name
    = Some (SLabel (Z.of_nat (List.length (filter code_cop (cv_out cgp))))).
Proof. exact layout. Qed.
Print Assumptions C04_layout.

(* ---- label values are instruction addresses ------------------------------------------------------------- *)
From Hera.Proofs Require Import C04_Bounds.
(* in a program whose label pass reports no error (in particular: an accepted program), every code label is an
   address 0..65535: it can be loaded by SETLO/SETHI and reached by a register branch without truncation *)
Theorem C04_labels_in_range : forall c ops st msgs,
  get_labels c ops = (st, msgs) -> has_errors msgs = false ->
  forall k v, dict_get st k = Some (SLabel v) -> 0 <= v <= 65535.
Proof. exact labels_in_range. Qed.
Print Assumptions C04_labels_in_range.
