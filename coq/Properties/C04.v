(* C04 — labels, data labels and constants resolve to the right place in every mode.
   Theorems over Model/Preproc.v (hand model of hera/checker.py, tied by correspondence) and the
   regenerated operation_length / convert / P tables.
   Proved here: the two passes agree on every type-checked operation's expansion length (the
   obligation whose failure shifts every later label), relative label branches are accepted exactly
   when the distance fits and then carry it, and each data statement advances the data counter by
   its cell count.  The whole-program layout statement (each label = index of the next emitted
   instruction) is decided by the correspondence + oracle of this check, not yet by a theorem:
   this property is therefore claimed as PARTIAL proof (see DESIGN.md). *)
From Coq Require Import ZArith List Bool String.
From Hera.Lib Require Import Py.
From Hera.Gen Require Import Ops Tables Convert.
From Hera.Model Require Import OpRep Bitvec Preproc.
From Hera.Proofs Require Import C04_Oplen.
Import ListNotations.
Open Scope Z_scope.

Theorem C04_oplen_eq_convert : forall c ts st st' ts' l,
  counts_as_code c = true ->
  has_errors (default_typecheck (mkop c ts) st) = false ->
  subst_tokens ts st' = Ok ts' ->
  convert_full (mkop c ts') = Ok l ->
  zlen l = operation_length (mkop c ts).
Proof. exact oplen_eq_convert. Qed.
Print Assumptions C04_oplen_eq_convert.

Theorem C04_relbranch_offset_partial : forall st g i c name rest tv,
  is_relative_branch c = true ->
  (dict_get st name = Some (SLabel tv) \/ dict_get st name = Some (SDataLabel tv)) ->
  let o := mkop c (tok_sym name :: rest) in
  let jump := tv - cv_pc g in
  convert_step st (Ok g) (i, o) =
  if (jump <? -128) || (jump >=? 128) then
    (new <~ convert_full o ;;
     Ok (mkcv (cv_out g ++ map (fun n => mkcop n i) new)
              (if is_data_op c then cv_pc g else cv_pc g + zlen new)
              (cv_msgs g ++ [err "label is too far for a relative branch" [] (LocTok 0)])))%R
  else
    (new <~ convert_full (mkop c (tok_int (PI jump) :: rest)) ;;
     Ok (mkcv (cv_out g ++ map (fun n => mkcop n i) new)
              (if is_data_op c then cv_pc g else cv_pc g + zlen new) (cv_msgs g)))%R.
Proof. exact relbranch_step. Qed.
Print Assumptions C04_relbranch_offset_partial.

Theorem C04_data_layout_partial :
  (forall c g ts, gl_dc (get_labels_step c g (mkop O_INTEGER ts)) = gl_dc g + 1) /\
  (forall c g s, gl_dc (get_labels_step c g (mkop O_LP_STRING [tok_str (PS s)])) = gl_dc g + zlen s + 1) /\
  (forall c g n, gl_dc (get_labels_step c g (mkop O_DSKIP [tok_int (PI n)])) = gl_dc g + n) /\
  (forall c g name, out_of_range_z (gl_dc g) = false ->
     dict_get (gl_st (get_labels_step c g (mkop O_DLABEL [tok_sym name]))) name = Some (SDataLabel (gl_dc g))).
Proof. exact (conj gl_INTEGER (conj gl_LP_STRING (conj gl_DSKIP gl_DLABEL))). Qed.
Print Assumptions C04_data_layout_partial.
