(* C15 — runs are repeatable, isolated from earlier runs, and throttling cuts cleanly.
   [vm_reset], [run_guard*] are regenerated from hera/vm.py; [run], [iter], [loop_step*] are
   Model/Run.v.  The comparison "throttled state = unthrottled state at that point" is a theorem:
   nothing the interpreter executes reads or writes the instruction counter (Gen/Indep.v, regenerated
   with the code model: one lemma per generated definition), so the throttled loop follows the
   unthrottled one step for step, equal up to op_count.  Process-level isolation (module globals) is
   outside the model and decided by the oracle (PARTIAL only in that respect). *)
From Coq Require Import ZArith List String.
From Hera.Lib Require Import Py Machine.
From Hera.Gen Require Import Vm Ops.
From Hera.Spec Require Import Wf.
From Hera.Model Require Import Run.
From Hera.Lib Require Import Indep.
From Hera.Gen Require Import Indep.
From Hera.Spec Require Import ISA.
From Hera.Proofs Require Import C02_Run C15_Repeat C15_Throttle C15_Count C15_Unthrottled.
Import ListNotations.
Open Scope Z_scope.

(* reset() forgets everything the machine held: registers, flags, memory, pc, counters, call
   stack, input buffer — only the settings object and what is not machine state survive *)
Theorem C15_reset_forgets : forall s, vm_reset s = vm_reset (blank (cfg s) (out s) (swarning_count s)).
Proof. exact reset_forgets. Qed.
Print Assumptions C15_reset_forgets.

Theorem C15_run_deterministic : forall fuel p s1 s2,
  cfg s1 = cfg s2 -> out s1 = out s2 -> swarning_count s1 = swarning_count s2 ->
  run fuel p s1 = run fuel p s2.
Proof. exact run_deterministic. Qed.
Print Assumptions C15_run_deterministic.

(* every attribute hera/vm.py assigns on the machine is one of the model's fields *)
Theorem C15_vm_attrs_all_modelled : VM_ASSIGNED_ATTRS = modelled_vm_attrs.
Proof. exact vm_attrs_all_modelled. Qed.
Print Assumptions C15_vm_attrs_all_modelled.

Theorem C15_throttle_exact : forall code n, code_ok code -> forall fuel s, wf_vm s -> op_count s <= n ->
  match iter (loop_step_throttled n code) fuel s with
  | Ok s' => op_count s' <= n /\ (op_count s' = n \/ guard_true code s' = false)
  | Raise OutOfFuel => True
  | Raise _ => False
  end.
Proof. exact throttle_exact. Qed.
Print Assumptions C15_throttle_exact.

Theorem C15_throttle_prefix_partial : forall code n n', code_ok code -> n <= n' -> forall k s, wf_vm s ->
  op_count s + Z.of_nat k <= n ->
  steps (loop_step_throttled n code) k s = steps (loop_step_throttled n' code) k s.
Proof. exact throttle_prefix. Qed.
Print Assumptions C15_throttle_prefix_partial.

(* ---- throttled vs unthrottled ------------------------------------------------------------------------------ *)
(* execute() of every operation commutes with setting the instruction counter (result, state and
   exceptions): the generated code never reads or writes op_count *)
Theorem C15_exec_ignores_counter : forall o args c s,
  okrel c (exec o args s) (exec o args (upd_op_count c s)).
Proof. exact exec_indep. Qed.
Print Assumptions C15_exec_ignores_counter.

(* the same at the level of the specification *)
Theorem C15_step_ignores_counter : forall mc mv i c s,
  step_with mc mv i (upd_op_count c s) = upd_op_count c (step_with mc mv i s).
Proof. exact step_count_indep. Qed.
Print Assumptions C15_step_ignores_counter.

(* if the unthrottled loop ends after k iterations in s', the throttled loop with any limit of at
   least (counter + k) ends in s' with k more on the counter — for every program and state *)
Theorem C15_unthrottled_is_throttled : forall code n fuel s s' c,
  iter (loop_step code) fuel s = Ok s' ->
  exists k, (k <= fuel)%nat /\
    (c + Z.of_nat k <= n ->
     iter (loop_step_throttled n code) fuel (upd_op_count c s) = Ok (upd_op_count (c + Z.of_nat k) s')).
Proof. exact unthrottled_is_throttled. Qed.
Print Assumptions C15_unthrottled_is_throttled.

(* step for step: after k iterations within the limit the throttled state is the unthrottled
   state, up to the counter *)
Theorem C15_throttled_follows_unthrottled : forall code n k s s' c,
  steps (loop_step code) k s = Ok s' -> c + Z.of_nat k <= n ->
  exists c', c <= c' <= c + Z.of_nat k /\
    steps (loop_step_throttled n code) k (upd_op_count c s) = Ok (upd_op_count c' s').
Proof. exact throttled_follows_unthrottled. Qed.
Print Assumptions C15_throttled_follows_unthrottled.
