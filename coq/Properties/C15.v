(* C15 — runs are repeatable, isolated from earlier runs, and throttling cuts cleanly.
   [vm_reset], [run_guard*] are regenerated from hera/vm.py; [run], [iter], [loop_step*] are
   Model/Run.v.  The comparison "throttled state = unthrottled state at that point" is proved
   between throttled runs of different limits (the unthrottled loop differs only in not counting);
   see DESIGN.md for what is left to the correspondence (PARTIAL). *)
From Coq Require Import ZArith List String.
From Hera.Lib Require Import Py Machine.
From Hera.Gen Require Import Vm Ops.
From Hera.Spec Require Import Wf.
From Hera.Model Require Import Run.
From Hera.Proofs Require Import C02_Run C15_Repeat C15_Throttle.
Import ListNotations.
Open Scope Z_scope.

(* reset() forgets everything the machine held: registers, flags, memory, pc, counters, call
   stack, input buffer — only the settings object and what is not machine state survive *)
Theorem C15_reset_forgets : forall s, vm_reset s = vm_reset (blank (cfg s) (out s) (swarning_count s)).
Proof. exact reset_forgets. Qed.
Print Assumptions C15_reset_forgets.

Theorem C15_run_deterministic : forall fuel p s1 s2,
  cfg s1 = cfg s2 -> out s1 = out s2 -> swarning_count s1 = swarning_count s2 ->
  run fuel p s1 = run fuel p s2.
Proof. exact run_deterministic. Qed.
Print Assumptions C15_run_deterministic.

(* every attribute hera/vm.py assigns on the machine is one of the model's fields *)
Theorem C15_vm_attrs_all_modelled : VM_ASSIGNED_ATTRS = modelled_vm_attrs.
Proof. exact vm_attrs_all_modelled. Qed.
Print Assumptions C15_vm_attrs_all_modelled.

Theorem C15_throttle_exact : forall code n, code_ok code -> forall fuel s, wf_vm s -> op_count s <= n ->
  match iter (loop_step_throttled n code) fuel s with
  | Ok s' => op_count s' <= n /\ (op_count s' = n \/ guard_true code s' = false)
  | Raise OutOfFuel => True
  | Raise _ => False
  end.
Proof. exact throttle_exact. Qed.
Print Assumptions C15_throttle_exact.

Theorem C15_throttle_prefix_partial : forall code n n', code_ok code -> n <= n' -> forall k s, wf_vm s ->
  op_count s + Z.of_nat k <= n ->
  steps (loop_step_throttled n code) k s = steps (loop_step_throttled n' code) k s.
Proof. exact throttle_prefix. Qed.
Print Assumptions C15_throttle_prefix_partial.
