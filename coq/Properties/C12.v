(* C12 — stepping and breakpoints follow source operations exactly.
   Model/Debugger.v is the hand model of hera/debugger/debugger.py and of the stepping handlers
   of shell.py (session correspondence); [convert_full] is regenerated from hera/op.py. *)
From Coq Require Import ZArith List Bool.
From Hera.Lib Require Import Py Machine.
From Hera.Gen Require Import Ops Tables Convert.
From Hera.Model Require Import OpRep Bitvec Run Debugger.
From Hera.Proofs Require Import C12_Step.
Import ListNotations.
Open Scope Z_scope.

(* in the expansion of any source operation every real operation but the last is one of
   SETLO/SETHI/FON/FOFF: only the last can branch, call, return or halt *)
Theorem C12_expansion_only_last_branches : forall c ts l,
  negb (opname_eqb c O_OPCODE) = true ->
  List.length ts = List.length (P_of c) ->
  convert_full (mkop c ts) = Ok l ->
  Forall (fun r => seq_class (o_cls r) = true) (removelast l).
Proof. exact expansion_only_last_branches. Qed.
Print Assumptions C12_expansion_only_last_branches.

(* the operations `next` executes are exactly the remaining real operations of the current
   source operation: all of them come from it and the one after them does not *)
Theorem C12_slice_is_current_source_op : forall code pc x t,
  skipn (Z.to_nat pc) code = x :: t ->
  exists n, slice_at code pc = firstn (S n) (skipn (Z.to_nat pc) code) /\
            Forall (fun y => dp_orig y = dp_orig x) (slice_at code pc) /\
            match skipn (S n) (skipn (Z.to_nat pc) code) with y :: _ => dp_orig y <> dp_orig x | [] => True end.
Proof. exact slice_is_current_source_op. Qed.
Print Assumptions C12_slice_is_current_source_op.

Theorem C12_next_is_one_source_op : forall fuel code d,
  d_finished code d = false ->
  opname_is (dp_src (nth (Z.to_nat (pc (d_vm d))) code dummy_dop)) O_CALL = false ->
  next_over fuel code d = exec_slice (slice_at code (pc (d_vm d))) d.
Proof. exact next_is_one_source_op. Qed.
Print Assumptions C12_next_is_one_source_op.

Theorem C12_next_n_is_n_nexts : forall fuel code n d,
  next_n fuel code (S n) d =
  if d_finished code d then Ok d
  else match next_over fuel code d with Ok d' => next_n fuel code n d' | Raise e => Raise e end.
Proof. exact next_n_unfold. Qed.
Print Assumptions C12_next_n_is_n_nexts.

Theorem C12_continue_stops_exactly : forall code fuel d d',
  do_continue fuel code d = Ok d' ->
  exists d1, next_into code d = Ok d1 /\ steps_to code (continue_stop code) d1 d'.
Proof. exact continue_stops_exactly. Qed.
Print Assumptions C12_continue_stops_exactly.

Theorem C12_next_over_call_stops_exactly : forall code fuel d d',
  d_finished code d = false ->
  opname_is (dp_src (nth (Z.to_nat (pc (d_vm d))) code dummy_dop)) O_CALL = true ->
  next_over fuel code d = Ok d' ->
  exists d1, next_into code d = Ok d1 /\ steps_to code (over_stop code (d_calls d)) d1 d'.
Proof. exact next_over_call_stops_exactly. Qed.
Print Assumptions C12_next_over_call_stops_exactly.
