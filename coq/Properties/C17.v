(* C17 — every diagnostic points at the real place (PARTIAL: the location recorded in every
   token, and the preservation of line numbers by conditional compilation, are theorems; which
   token a diagnostic is attached to, include attribution and the caret are decided by the
   planted-fault oracle of the check). *)
From Coq Require Import ZArith List Bool.
From Hera.Model Require Import Lexer Ifdef.
From Hera.Proofs Require Import C07_Lexer C16_Ifdef.
Import ListNotations.
Open Scope Z_scope.

(* the line and column of every token are those of its first character in the text: one plus the
   number of newlines before it, one plus the number of characters since the last newline —
   after comments, tabs, multi-line constructs, anything *)
Theorem C17_token_locations : forall text ts ws sf, lex text = (ts, ws, sf) ->
  Forall (fun t => (t_start t <= List.length text)%nat /\
                   t_line t = line_of (firstn (t_start t) text) /\
                   t_col t = col_of (firstn (t_start t) text)) ts.
Proof. exact token_locations. Qed.
Print Assumptions C17_token_locations.

(* conditional compilation keeps every surviving line at its line number and unchanged *)
Theorem C17_ifdef_keeps_lines_in_place : forall cls lines st,
  List.length (run cls st lines) = List.length lines /\
  forall n, nth n (run cls st lines) [] = nth n lines [] \/ nth n (run cls st lines) [] = [].
Proof. intros. split; [apply ifdef_keeps_line_count|intros n; apply ifdef_lines_in_place]. Qed.
Print Assumptions C17_ifdef_keeps_lines_in_place.
