(* C17 — every diagnostic points at the real place (PARTIAL: the location recorded in every
   token, and the preservation of line numbers by conditional compilation, are theorems; which
   token a diagnostic is attached to, include attribution and the caret are decided by the
   planted-fault oracle of the check). *)
From Coq Require Import ZArith List Bool.
From Hera.Model Require Import Lexer Ifdef.
From Hera.Proofs Require Import C07_Lexer C16_Ifdef.
Import ListNotations.
Open Scope Z_scope.

(* the line and column of every token are those of its first character in the text: one plus the
   number of newlines before it, one plus the number of characters since the last newline —
   after comments, tabs, multi-line constructs, anything *)
Theorem C17_token_locations : forall text ts ws sf, lex text = (ts, ws, sf) ->
  Forall (fun t => (t_start t <= List.length text)%nat /\
                   t_line t = line_of (firstn (t_start t) text) /\
                   t_col t = col_of (firstn (t_start t) text)) ts.
Proof. exact token_locations. Qed.
Print Assumptions C17_token_locations.

(* conditional compilation keeps every surviving line at its line number and unchanged *)
Theorem C17_ifdef_keeps_lines_in_place : forall cls lines st,
  List.length (run cls st lines) = List.length lines /\
  forall n, nth n (run cls st lines) [] = nth n lines [] \/ nth n (run cls st lines) [] = [].
Proof. intros. split; [apply ifdef_keeps_line_count|intros n; apply ifdef_lines_in_place]. Qed.
Print Assumptions C17_ifdef_keeps_lines_in_place.

(* ---- what a diagnostic of the type checker is attached to (Model/Preproc.v) ------------------------------- *)
From Coq Require Import String.
From Hera.Lib Require Import Py.
From Hera.Gen Require Import Ops Tables.
From Hera.Model Require Import OpRep Preproc.
From Hera.Proofs Require Import C17_Attach.

(* an operand fault is reported on that operand's token; a wrong operand count on the operation *)
Theorem C17_typecheck_attachment : forall o st m, In m (default_typecheck o st) ->
  (m_loc m = LocOp /\ zlen (P_of (o_cls o)) <> zlen (o_toks o)) \/
  (exists k, m_loc m = LocTok k /\ (k < List.length (o_toks o))%nat).
Proof. exact typecheck_attachment. Qed.
Print Assumptions C17_typecheck_attachment.

Theorem C17_operand_faults_on_operands : forall ps ts st i m, In m (check_arglist ps ts st i) ->
  exists k e, (k < List.length ts)%nat /\ (k < List.length ps)%nat /\
    check_arg (nth k ps P_REGISTER) (nth k ts dummy_tok) st = Some e /\
    m = argerr_msg e (i + k) /\ m_loc m = LocTok (i + k).
Proof. exact operand_faults_on_operands. Qed.
Print Assumptions C17_operand_faults_on_operands.

Theorem C17_faulty_operand_is_reported : forall ps ts st i k e, (k < List.length ts)%nat -> (k < List.length ps)%nat ->
  check_arg (nth k ps P_REGISTER) (nth k ts dummy_tok) st = Some e ->
  In (argerr_msg e (i + k)) (check_arglist ps ts st i).
Proof. exact faulty_operand_is_reported. Qed.
Print Assumptions C17_faulty_operand_is_reported.

(* ---- the caret line --------------------------------------------------------------------------------------- *)
From Coq Require Import ZArith List.
From Hera.Model Require Import Caret.
From Hera.Proofs Require Import C17_Caret.

(* printed after the same indentation as the quoted line, the white space of align_caret brings the caret to
   the display column of the character in the reported column — for every distance w between tab stops *)
Theorem C17_caret_under_column : forall w line col at_,
  layout w at_ (align_caret line col) = layout w at_ (firstn (Z.to_nat (col - 1)) line).
Proof. exact caret_under_column. Qed.
Print Assumptions C17_caret_under_column.
