(* C03 — each pseudo-operation means what the manual says, clobbering only what it may.
   [convert_full] is Gen/Convert.v (regenerated from the convert methods of hera/op.py) completed
   with OPCODE; [run_ops] executes the expansion with the code model Gen.Ops.exec; [ps_*] is the
   hand-written Spec/PseudoSpec.v.  [arch_eq] ignores only hera-py's stack-pointer warning
   bookkeeping, which SET/SETRF to R15 may touch on the intermediate SETLO value (see DESIGN). *)
From Coq Require Import ZArith List String.
From Hera.Lib Require Import Py Machine Word16.
From Hera.Gen Require Import Ops Convert.
From Hera.Spec Require Import ISA Wf PseudoSpec.
From Hera.Model Require Import OpRep InstrOf Bitvec.
From Hera.Proofs Require Import C03_Pseudo C03_Label C03_CallAny.
Import ListNotations.
Open Scope Z_scope.

Theorem C03_SET : forall d v s, wf_vm s -> reg_ix d -> -32768 <= v < 65536 ->
  exists ops s', convert_full (mkop O_SET [R d; N v]) = Ok ops /\ List.length ops = 2%nat /\
                 run_ops ops s = Ok (tt, s') /\ wf_vm s' /\
                 arch_eq s' (ps_SET d v s) /\ (d <> 15 -> sp_quiet s' s).
Proof. exact SET_meaning. Qed.
Print Assumptions C03_SET.

Theorem C03_SETRF : forall d v s, wf_vm s -> reg_ix d -> -32768 <= v < 65536 ->
  exists ops s', convert_full (mkop O_SETRF [R d; N v]) = Ok ops /\ List.length ops = 4%nat /\
                 run_ops ops s = Ok (tt, s') /\ arch_eq s' (ps_SETRF d v s) /\ (d <> 15 -> sp_quiet s' s).
Proof. exact SETRF_meaning. Qed.
Print Assumptions C03_SETRF.

Theorem C03_MOVE : forall a b s, wf_vm s -> reg_ix a -> reg_ix b ->
  exists s', convert_full (mkop O_MOVE [R a; R b]) = Ok [mkop O_OR [R a; R b; R 0]] /\
             run_ops [mkop O_OR [R a; R b; R 0]] s = Ok (tt, s') /\ s' = ps_MOVE a b s.
Proof. exact MOVE_meaning. Qed.
Print Assumptions C03_MOVE.

Theorem C03_CMP : forall a b s, wf_vm s -> reg_ix a -> reg_ix b ->
  exists s', convert_full (mkop O_CMP [R a; R b]) = Ok [mkop O_FON [N 8]; mkop O_SUB [R 0; R a; R b]] /\
             run_ops [mkop O_FON [N 8]; mkop O_SUB [R 0; R a; R b]] s = Ok (tt, s') /\ s' = ps_CMP a b s.
Proof. exact CMP_meaning. Qed.
Print Assumptions C03_CMP.

Theorem C03_NEG : forall d a s, wf_vm s -> reg_ix d -> reg_ix a ->
  exists s', convert_full (mkop O_NEG [R d; R a]) = Ok [mkop O_FON [N 8]; mkop O_SUB [R d; R 0; R a]] /\
             run_ops [mkop O_FON [N 8]; mkop O_SUB [R d; R 0; R a]] s = Ok (tt, s') /\ s' = ps_NEG d a s.
Proof. exact NEG_meaning. Qed.
Print Assumptions C03_NEG.

Theorem C03_NOT : forall d a s, wf_vm s -> reg_ix d -> reg_ix a -> a <> 11 ->
  exists s', convert_full (mkop O_NOT [R d; R a])
               = Ok [mkop O_SETLO [R 11; N 255]; mkop O_SETHI [R 11; N 255]; mkop O_XOR [R d; R 11; R a]] /\
             run_ops [mkop O_SETLO [R 11; N 255]; mkop O_SETHI [R 11; N 255]; mkop O_XOR [R d; R 11; R a]] s
               = Ok (tt, s') /\ s' = ps_NOT d a s.
Proof. exact NOT_meaning. Qed.
Print Assumptions C03_NOT.

Theorem C03_FLAGS : forall a s, wf_vm s -> reg_ix a ->
  exists s', convert_full (mkop O_FLAGS [R a]) = Ok [mkop O_FOFF [N 8]; mkop O_ADD [R 0; R a; R 0]] /\
             run_ops [mkop O_FOFF [N 8]; mkop O_ADD [R 0; R a; R 0]] s = Ok (tt, s') /\ s' = ps_FLAGS a s.
Proof. exact FLAGS_meaning. Qed.
Print Assumptions C03_FLAGS.

Theorem C03_CON : forall s, wf_vm s ->
  exists s', convert_full (mkop O_CON []) = Ok [mkop O_FON [N 8]] /\
             run_ops [mkop O_FON [N 8]] s = Ok (tt, s') /\ s' = ps_CON s.
Proof. exact CON_meaning. Qed.
Print Assumptions C03_CON.
Theorem C03_COFF : forall s, wf_vm s ->
  exists s', convert_full (mkop O_COFF []) = Ok [mkop O_FOFF [N 8]] /\
             run_ops [mkop O_FOFF [N 8]] s = Ok (tt, s') /\ s' = ps_COFF s.
Proof. exact COFF_meaning. Qed.
Print Assumptions C03_COFF.
Theorem C03_CBON : forall s, wf_vm s ->
  exists s', convert_full (mkop O_CBON []) = Ok [mkop O_FON [N 16]] /\
             run_ops [mkop O_FON [N 16]] s = Ok (tt, s') /\ s' = ps_CBON s.
Proof. exact CBON_meaning. Qed.
Print Assumptions C03_CBON.
Theorem C03_CCBOFF : forall s, wf_vm s ->
  exists s', convert_full (mkop O_CCBOFF []) = Ok [mkop O_FOFF [N 24]] /\
             run_ops [mkop O_FOFF [N 24]] s = Ok (tt, s') /\ s' = ps_CCBOFF s.
Proof. exact CCBOFF_meaning. Qed.
Print Assumptions C03_CCBOFF.
Theorem C03_HALT : forall s, wf_vm s ->
  exists s', convert_full (mkop O_HALT []) = Ok [mkop O_BRR [N 0]] /\
             run_ops [mkop O_BRR [N 0]] s = Ok (tt, s') /\ s' = ps_HALT s.
Proof. exact HALT_meaning. Qed.
Print Assumptions C03_HALT.
Theorem C03_NOP : forall s, wf_vm s ->
  exists s', convert_full (mkop O_NOP []) = Ok [mkop O_BRR [N 1]] /\
             run_ops [mkop O_BRR [N 1]] s = Ok (tt, s') /\ s' = ps_NOP s.
Proof. exact NOP_meaning. Qed.
Print Assumptions C03_NOP.

(* the label form of every register branch (fifteen conditions at once) *)
Theorem C03_branch_label_convert : forall c l, 0 <= l < 65536 ->
  convert_full (mkop (cond_regbranch c) [N l])
  = Ok [mkop O_SETLO [R 11; N (l mod 256)]; mkop O_SETHI [R 11; N (l / 256)]; mkop (cond_regbranch c) [R 11]].
Proof. exact convert_branch_label. Qed.
Print Assumptions C03_branch_label_convert.
Theorem C03_branch_label : forall c l s, wf_vm s -> 0 <= l < 65536 ->
  run_ops [mkop O_SETLO [R 11; N (l mod 256)]; mkop O_SETHI [R 11; N (l / 256)];
           mkop (cond_regbranch c) [R 11]] s
  = Ok (tt, ps_BRANCH c l s).
Proof. exact branch_label_meaning. Qed.
Print Assumptions C03_branch_label.

Theorem C03_call_label : forall a l s, wf_vm s -> reg_ix a -> a <> 13 -> a <> 14 -> 0 <= l < 65536 ->
  convert_full (mkop O_CALL [R a; N l])
  = Ok [mkop O_SETLO [R 13; N (l mod 256)]; mkop O_SETHI [R 13; N (l / 256)]; mkop O_CALL [R a; R 13]]
  /\ run_ops [mkop O_SETLO [R 13; N (l mod 256)]; mkop O_SETHI [R 13; N (l / 256)]; mkop O_CALL [R a; R 13]] s
     = Ok (tt, ps_CALL a l s).
Proof. exact call_label_meaning. Qed.
Print Assumptions C03_call_label.

(* ... and for EVERY register Ra - R13 and FP included, where the two exchanges overlap and the full meaning is left
   open - the call arrives at the label *)
Theorem C03_call_label_arrives : forall a l s, wf_vm s -> reg_ix a -> 0 <= l < 65536 ->
  exists s', run_ops [mkop O_SETLO [R 13; N (l mod 256)]; mkop O_SETHI [R 13; N (l / 256)]; mkop O_CALL [R a; R 13]] s
             = Ok (tt, s') /\ pc s' = l.
Proof. exact call_label_arrives. Qed.
Print Assumptions C03_call_label_arrives.

(* the real operation CALL(Ra, Rb) itself, for ANY two registers (also Ra = Rb and FP as an operand, which C01's
   specification leaves open): the code performs the two exchanges one after the other ([swap_gen]), and control goes to
   the address that was in Rb *)
Theorem C03_call_any_registers : forall s a b, wf_vm s -> reg_ix a -> reg_ix b ->
  exec_CALL [PI a; PI b] s = Ok (tt, swap_gen a b (upd_ers (ers s ++ [(getreg s b, pc s + 1)]) s)) /\
  pc (swap_gen a b (upd_ers (ers s ++ [(getreg s b, pc s + 1)]) s)) = getreg s b.
Proof. exact call_any_registers. Qed.
Print Assumptions C03_call_any_registers.

(* OPCODE(w) expands to exactly the instruction w decodes to (whose meaning is C01's) *)
Theorem C03_OPCODE : forall w o, disassemble w false = Ok o -> convert_full (mkop O_OPCODE [N w]) = Ok [o].
Proof. exact opcode_meaning. Qed.
Print Assumptions C03_OPCODE.
