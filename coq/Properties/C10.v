(* C10 — `hera preprocess` prints a program that means the same as its input (PARTIAL).
   Proved here: the string-literal codec — what op.string_literal prints (Model/Printer.v) the
   lexer (Model/Lexer.v) reads back as the same string, for every string, in any context, with no
   warning.  The OPCODE words of the --obfuscate form are the C05 codec theorems
   (assemble/disassemble inverse on all 65536 words); their printed form OPCODE(0x...) and every integer operand as
   printed (Model/IntLit.v: str(value) read back by the parser's match_value / match_int) read back to the same
   value.  Operand printing of registers and symbols and the listing format are decided by the round-trip oracle
   on the real tool. *)
From Coq Require Import ZArith List Bool.
From Hera.Model Require Import Lexer Printer.
From Hera.Proofs Require Import C10_Strings.
Import ListNotations.
Open Scope Z_scope.

Theorem C10_printed_string_reads_back : forall s0 v post, Forall (fun c => 0 <= c) v ->
  rest s0 = string_literal v ++ post ->
  exists s', next_token s0 = (mktok T_STRING v (line s0) (col s0) (pos s0), s', []) /\ rest s' = post.
Proof. exact printed_string_reads_back. Qed.
Print Assumptions C10_printed_string_reads_back.

(* non-vacuity: a string with a quote, a backslash, a newline, a control character, a byte above 127
   and a character above 255 *)
Example C10_example :
  let v := [34; 92; 10; 13; 200; 300; 65] in
  fst (fst (next_token (start (string_literal v ++ [41])))) = mktok T_STRING v 1 1 0.
Proof. vm_compute. reflexivity. Qed.

(* integer operands: what the listing prints for a value of the operand range is read back by the parser as that
   value, and the OPCODE(0x...) form of an instruction word reads back and decodes to the instruction *)
From Hera.Spec Require Import ISA EncTable.
From Hera.Model Require Import IntLit.
From Hera.Proofs Require Import C10_IntLit.
Theorem C10_printed_integer_reads_back : forall n, -32768 <= n < 65536 -> read_value (print_int n) = Some n.
Proof. exact printed_int_reads_back. Qed.
Print Assumptions C10_printed_integer_reads_back.

Theorem C10_obfuscated_word_reads_back : forall w, 0 <= w < 65536 -> read_value (print_opcode_word w) = Some w.
Proof. exact printed_word_reads_back. Qed.
Print Assumptions C10_obfuscated_word_reads_back.

Theorem C10_obfuscated_instr_reads_back : forall i, valid_instr i = true ->
  match read_value (print_opcode_word (word_of i)) with Some w => decode_word w | None => None end = Some (canon i).
Proof. exact obfuscated_instr_reads_back. Qed.
Print Assumptions C10_obfuscated_instr_reads_back.

Theorem C10_printed_register_reads_back : forall n, 0 <= n < 16 -> register_to_index (print_register n) = Some n.
Proof. exact printed_register_reads_back. Qed.
Print Assumptions C10_printed_register_reads_back.

Example C10_int_example :
  print_int (-128) = [45; 49; 50; 56] /\ read_value [45; 48; 120; 49; 70] = Some (-31) /\
  read_value [48; 49; 55] = Some 15 /\ read_value [48; 57] = None /\
  register_to_index [80; 67; 95; 114; 101; 116] = Some 13 /\ register_to_index [82; 49; 54] = None.
Proof. vm_compute. repeat split. Qed.
