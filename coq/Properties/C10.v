(* C10 — `hera preprocess` prints a program that means the same as its input (PARTIAL).
   Theorem here: the string-literal codec — what op.string_literal prints (Model/Printer.v) the
   lexer (Model/Lexer.v) reads back as the same string, for every string, in any context, with no
   warning.  The OPCODE words of the --obfuscate form are the C05 codec theorems
   (assemble/disassemble inverse on all 65536 words).  Operand printing of integers, registers and
   symbols and the listing format are decided by the round-trip oracle on the real tool. *)
From Coq Require Import ZArith List Bool.
From Hera.Model Require Import Lexer Printer.
From Hera.Proofs Require Import C10_Strings.
Import ListNotations.
Open Scope Z_scope.

Theorem C10_printed_string_reads_back : forall s0 v post, Forall (fun c => 0 <= c) v ->
  rest s0 = string_literal v ++ post ->
  exists s', next_token s0 = (mktok T_STRING v (line s0) (col s0) (pos s0), s', []) /\ rest s' = post.
Proof. exact printed_string_reads_back. Qed.
Print Assumptions C10_printed_string_reads_back.

(* non-vacuity: a string with a quote, a backslash, a newline, a control character, a byte above 127
   and a character above 255 *)
Example C10_example :
  let v := [34; 92; 10; 13; 200; 300; 65] in
  fst (fst (next_token (start (string_literal v ++ [41])))) = mktok T_STRING v 1 1 0.
Proof. vm_compute. reflexivity. Qed.
