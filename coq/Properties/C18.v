(* C18 — the command line honours its contract (PARTIAL: decision rules of the argument parser are
   theorems on Model/Cli.v, with FLAGS and PICKY_FLAGS regenerated from hera/main.py; exit
   statuses, stream separation and the assemble files are decided by the oracle on hera.main.main
   over enumerated argument vectors and inputs). *)
From Coq Require Import ZArith List Bool String.
From Hera.Gen Require Import CliTables.
From Hera.Model Require Import Cli.
From Hera.Proofs Require Import C18_Cli.
Import ListNotations.
Open Scope string_scope.

Theorem C18_run_wellformed : forall iv argv mode path flags, parse_args iv argv = Run mode path flags ->
  mode = mode_of flags /\
  fhas "--help" flags = false /\ fhas "--version" flags = false /\ fhas "--credits" flags = false /\
  (forall pf, In pf CLI_PICKY_FLAGS -> fhas (fst pf) flags = true -> in_list mode (snd pf) = true) /\
  (fhas "--quiet" flags && fhas "--verbose" flags = false) /\
  (forall s, fget "--init" flags = Some (FStr s) -> iv s = true).
Proof. exact run_wellformed. Qed.
Print Assumptions C18_run_wellformed.

Theorem C18_unknown_flag_rejected : forall a r flags pos,
  let l := short_to_long a in
  String.eqb l "--" = false -> in_list l CLI_FLAGS = false ->
  prefix "--throttle" l = false -> prefix "--init=" l = false ->
  prefix "-" l = true -> Nat.ltb 1 (String.length l) = true ->
  scan (a :: r) false flags pos = inl ("Unrecognized flag: " ++ a).
Proof. exact unknown_flag_rejected. Qed.
Print Assumptions C18_unknown_flag_rejected.

Theorem C18_bad_throttle_rejected : forall v r flags pos, parse_throttle v = None ->
  scan ("--throttle" :: v :: r) false flags pos = inl "--throttle takes one integer argument." /\
  scan (("--throttle=" ++ v) :: r) false flags pos = inl "--throttle takes one integer argument.".
Proof. exact bad_throttle_rejected. Qed.
Print Assumptions C18_bad_throttle_rejected.

Theorem C18_throttle_is_natural : forall v n, parse_throttle v = Some n -> (0 <= n)%Z.
Proof. exact throttle_is_natural. Qed.
Print Assumptions C18_throttle_is_natural.

Example C18_example :
  parse_args (fun _ => true) ["--throttle=abc"; "p.hera"] = Usage "--throttle takes one integer argument." /\
  parse_args (fun _ => true) ["assemble"; "--stdout"; "--code"; "p.hera"]
  = Run "assemble" "p.hera" [("assemble", FTrue); ("--stdout", FTrue); ("--code", FTrue)] /\
  parse_args (fun _ => true) ["debug"; "--stdout"; "p.hera"] = Usage "--stdout is not compatible with the chosen mode.".
Proof. repeat split. Qed.

(* ---- the two spellings of a valued flag ------------------------------------------------------------------ *)
From Hera.Proofs Require Import C18_Syntax.

(* where the flag loop meets `--throttle=v` it continues exactly as on the two arguments `--throttle v`
   (accepted with the same value, or refused with the same message), for every text v — "0" included *)
Theorem C18_throttle_spellings_agree : forall v r flags pos,
  scan (("--throttle=" ++ v) :: r) false flags pos = scan ("--throttle" :: v :: r) false flags pos.
Proof. exact throttle_spellings_agree. Qed.
Print Assumptions C18_throttle_spellings_agree.

Theorem C18_init_spellings_agree : forall v r flags pos,
  scan (("--init=" ++ v) :: r) false flags pos = scan ("--init" :: v :: r) false flags pos.
Proof. exact init_spellings_agree. Qed.
Print Assumptions C18_init_spellings_agree.

(* after a bare --, arguments are file names taken literally: `hera -- -q` names the file -q (defect D57) *)
Theorem C18_after_dashdash_literal : forall argv flags pos,
  scan argv true flags pos = inr (flags, (pos ++ filter (fun a => negb (String.eqb a "--")) argv)%list).
Proof. exact after_dashdash_literal. Qed.
Print Assumptions C18_after_dashdash_literal.
