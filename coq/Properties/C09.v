(* C09 — the checker accepts exactly the programs that obey the documented operand rules.
   [P_of], class facts are regenerated from hera/op.py; [default_typecheck], [op_typecheck],
   [typecheck_step] are Model/Preproc.v (tied by correspondence); [signature], [arg_ok] are the
   hand-written documented rules Spec/Signature.v.  Operation- and step-level exactness are
   theorems; the whole-program composition (symbol scoping across the fold, relative-branch
   distances) is decided by this check's grid correspondence and oracle (PARTIAL, see DESIGN.md). *)
From Coq Require Import ZArith List Bool String.
From Hera.Lib Require Import Py.
From Hera.Gen Require Import Ops Tables.
From Hera.Spec Require Import Signature.
From Hera.Model Require Import OpRep Bitvec Preproc.
From Hera.Proofs Require Import C09_Checker.
Import ListNotations.
Open Scope Z_scope.

(* the parameter tuples of hera/op.py are the documented signatures: counts, kinds and both ends
   of every integer range (INC/DEC 1..64, 4/5-bit fields, bytes -128..255, words -32768..65535) *)
Theorem C09_P_matches_signature : forall o, map kind_of_ptype (P_of o) = signature o.
Proof. exact P_matches_signature. Qed.
Print Assumptions C09_P_matches_signature.

(* an operand is accepted iff it conforms to its documented kind, for every integer value, every
   token kind and every binding of a symbol (label / data label / constant / nothing) *)
Theorem C09_check_arg_exact : forall p t st, tok_parsed t ->
  (check_arg p t st = None <-> arg_ok (kind_of_ptype p) t st).
Proof. exact check_arg_exact. Qed.
Print Assumptions C09_check_arg_exact.

Theorem C09_op_accept_exact : forall o st, Forall tok_parsed (o_toks o) ->
  (has_errors (default_typecheck o st) = false <->
   Forall2 (fun k t => arg_ok k t st) (signature (o_cls o)) (o_toks o)).
Proof. exact op_accept_exact. Qed.
Print Assumptions C09_op_accept_exact.

(* the program-level rules applied at each operation: no data after code, interrupts and debugging
   operations only where the mode / flags allow them *)
Theorem C09_typecheck_step_exact_partial : forall c t o,
  has_errors (step_msgs c t o) = false <->
  has_errors (op_typecheck o (tc_st t) (String.eqb (cs_mode c) "assemble")) = false /\
  (is_data_op (o_cls o) && tc_seen_code t = false) /\
  (cs_allow_interrupts c = true \/ interrupt_name o (tc_st t) = None) /\
  (cs_no_debug_ops c && is_debugging_op (o_cls o) = false).
Proof. exact typecheck_step_exact. Qed.
Print Assumptions C09_typecheck_step_exact_partial.

(* whole programs: a program is accepted iff no symbol is declared twice, the label / data layout
   pass reports nothing (data segment within memory, program within the address space), and every
   operation, met with the constants declared before it, passes the per-operation rules above —
   no other source of rejection exists *)
Theorem C09_program_accept_exact : forall c ops,
  has_errors (snd (typecheck c ops)) = false <->
  has_errors (check_redecl ops []) = false /\
  has_errors (snd (get_labels c ops)) = false /\
  steps_clean c (mktc (fst (get_labels c ops)) false (check_redecl ops [] ++ snd (get_labels c ops))) ops.
Proof. exact program_accept_exact. Qed.
Print Assumptions C09_program_accept_exact.
