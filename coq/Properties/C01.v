(* C01 — every machine instruction has exactly its architected effect.
   Property theorems only: each is closed by a lemma proved in Proofs/, followed by
   Print Assumptions. *)
From Coq Require Import ZArith List.
From Hera.Lib Require Import Py Machine.
From Hera.Gen Require Import Ops.
From Hera.Spec Require Import ISA Wf.
From Hera.Proofs Require Import C01_ALU.
Import ListNotations.
Open Scope Z_scope.

Theorem C01_AND : forall s d a b, wf_vm s -> reg_ix d -> reg_ix a -> reg_ix b ->
  exec_AND [PI d; PI a; PI b] s = Ok (tt, step_AND d a b s).
Proof. exact exec_AND_ok. Qed.
Print Assumptions C01_AND.

Theorem C01_ADD : forall s d a b, wf_vm s -> reg_ix d -> reg_ix a -> reg_ix b ->
  exec_ADD [PI d; PI a; PI b] s = Ok (tt, step_ADD d a b s).
Proof. exact exec_ADD_ok. Qed.
Print Assumptions C01_ADD.
