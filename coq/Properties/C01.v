(* C01 — every machine instruction has exactly its architected effect.

   Property theorems only: each is closed by a lemma proved under Proofs/, followed by
   Print Assumptions.  [exec] is Gen/Ops.v, regenerated from hera/op.py on every run;
   [step_with] is the hand-written HERA 2.4 specification Spec/ISA.v. *)
From Coq Require Import ZArith List.
From Hera.Lib Require Import Py Machine Word16.
From Hera.Gen Require Import Ops.
From Hera.Spec Require Import ISA Wf.
From Hera.Model Require Import InstrOf.
From Hera.Proofs Require Import C01_All.
Import ListNotations.
Open Scope Z_scope.

(* Every real instruction (all 57 classes with an encoding except SWI/RTI), every well-formed
   state, every valid operand tuple (registers quantified, so R0 and every aliasing pattern
   are included), wherever the definition constrains the outcome: the code computes exactly
   the specified successor state.  Equality is on the whole state record: registers, five
   flags, memory, pc, halt latch, call stack, warning counters and output. *)
Theorem C01_exec_exact : forall o args i s,
  wf_vm s -> instr_of o args = Some i -> valid_instr i = true -> constrained i s = true ->
  exists mc mv, is_bool mc /\ is_bool mv /\
    exec o (map PI args) s = Ok (tt, step_with mc mv i s).
Proof. exact exec_exact. Qed.
Print Assumptions C01_exec_exact.

(* grounding of the specification's memory and register helpers *)
Theorem C01_mem_write_same : forall m a v, 0 <= a -> mem_read (mem_write m a v) a = v.
Proof. exact mem_read_write_same. Qed.
Print Assumptions C01_mem_write_same.

Theorem C01_mem_write_other : forall m a b v,
  0 <= a -> 0 <= b -> a <> b -> wf_mem m -> mem_read (mem_write m a v) b = mem_read m b.
Proof. exact mem_read_write_other. Qed.
Print Assumptions C01_mem_write_other.

Theorem C01_R0_is_zero : forall v s, setreg 0 v s = s.
Proof. exact setreg_R0. Qed.
Print Assumptions C01_R0_is_zero.

(* the hypotheses are satisfiable, and the specification computes what one expects *)
Theorem C01_nonvacuous : wf_vm demo_state.
Proof. exact demo_state_wf. Qed.
Print Assumptions C01_nonvacuous.
