(* C16 — includes splice text, cycles are caught, conditionals follow the C rules.
   Conditional compilation: Model/Ifdef.v (line-level model of evaluate_ifdefs, correspondence on
   generated texts) against Spec/CondSpec.v (trees of well-nested conditionals, [cpp] = what a C
   preprocessor with only HERA_PY defined keeps).  Includes: Model/Include.v (abstract; path
   arithmetic is covered by the include oracle on real directory trees, PARTIAL). *)
From Coq Require Import ZArith List Bool String Ascii.
From Hera.Model Require Import Lexer Ifdef Include.
From Hera.Spec Require Import CondSpec.
From Hera.Proofs Require Import C16_Ifdef C16_Include.
Import ListNotations.

(* for every well-nested structure, at any depth and with or without #else, what remains is
   exactly what the C rules keep; directives and discarded lines (arbitrary text) become blank *)
Theorem C16_ifdef_is_cpp : forall t, wf classify t -> ifdef_lines (render t) = cpp classify true t.
Proof. exact ifdef_is_cpp. Qed.
Print Assumptions C16_ifdef_is_cpp.

(* the same inside any context: the machine is compositional *)
Theorem C16_ifdef_compositional : forall cls t, wf cls t -> forall k st rest,
  run cls (k :: st) (render t ++ rest) = cpp cls k t ++ run cls (k :: st) rest.
Proof. exact run_tree. Qed.
Print Assumptions C16_ifdef_compositional.

Theorem C16_includes_terminate : forall fs, fs_ok fs -> fs <> [] -> exists out, expand_main fs = Some out.
Proof. exact include_processing_terminates. Qed.
Print Assumptions C16_includes_terminate.

Theorem C16_cycle_reported : forall fuel fs stack cur t r,
  on_stack t (cur :: stack) = true ->
  expand fuel fs stack cur (IInc (Some t) :: r) = option_map (cons (ORecursive cur)) (expand fuel fs stack cur r).
Proof. exact cycle_reported. Qed.
Print Assumptions C16_cycle_reported.

Theorem C16_include_splices : forall fuel fs stack cur t r a b,
  on_stack t (cur :: stack) = false ->
  expand fuel fs (cur :: stack) t (file fs t) = Some a -> expand (S fuel) fs stack cur r = Some b ->
  expand (S fuel) fs stack cur (IInc (Some t) :: r) = Some (a ++ b).
Proof. exact include_splices. Qed.
Print Assumptions C16_include_splices.

(* non-vacuity: a nested structure whose inner HERA_PY block sits in a discarded outer block *)
Example C16_example :
  let l (s : string) := map (fun c => Z.of_nat (nat_of_ascii c)) (list_ascii_of_string s) in
  let t := TCond (l "#ifdef X"%string) (TCond (l "  #ifdef HERA_PY"%string) (TTxt (l "SET(R1,1)"%string) TNil) None TNil (l "#endif"%string) TNil)
                 (Some (l "#else"%string)) (TTxt (l "NOP()"%string) TNil) (l " #endif "%string) (TTxt (l "HALT()"%string) TNil) in
  wf classify t /\ ifdef_lines (render t) = [[]; []; []; []; []; l "NOP()"%string; []; l "HALT()"%string].
Proof. vm_compute. repeat split; try reflexivity; eexists; (left; reflexivity) || (right; reflexivity). Qed.

(* when no cycle is reported the result is the plain textual splice: every include directive stands
   for the contents of its file, whether or not that file was included before *)
Theorem C16_no_report_is_splice : forall fs fuel stack cur items out,
  expand fuel fs stack cur items = Some out -> no_cycle_report out ->
  splice fuel fs cur items = Some out.
Proof. exact no_report_is_splice. Qed.
Print Assumptions C16_no_report_is_splice.
