(* C19 — the built-in Tiger standard library keeps its contracts (PARTIAL: div and mod, whose
   arithmetic is Python code shared by both calling conventions, are theorems on Model/Stdlib.v;
   the functions written in HERA assembly (size, ord, chr, not, concat, substring, tstrcmp, malloc)
   and the calling contract are decided by the oracle that runs them on the real interpreter). *)
From Coq Require Import ZArith.
From Hera.Model Require Import Stdlib.
From Hera.Proofs Require Import C19_DivMod.
Open Scope Z_scope.

Theorem C19_div_is_signed_division : forall l r, signed r <> 0 ->
  tiger_div l r = (Z.quot (signed l) (signed r)) mod 65536.
Proof. exact tiger_div_spec. Qed.
Print Assumptions C19_div_is_signed_division.

Theorem C19_mod_is_signed_remainder : forall l r, signed r <> 0 ->
  tiger_mod l r = (Z.rem (signed l) (signed r)) mod 65536.
Proof. exact tiger_mod_spec. Qed.
Print Assumptions C19_mod_is_signed_remainder.

Theorem C19_zero_divisor : forall l r, signed r = 0 -> tiger_div l r = 0 /\ tiger_mod l r = 0.
Proof. exact tiger_div_mod_zero. Qed.
Print Assumptions C19_zero_divisor.

Theorem C19_results_are_words : forall l r, word (tiger_div l r) /\ word (tiger_mod l r).
Proof. exact tiger_div_mod_word. Qed.
Print Assumptions C19_results_are_words.

Theorem C19_quotient_remainder_recompose : forall l r, signed r <> 0 ->
  (signed r * signed (tiger_div l r) + signed (tiger_mod l r) - signed l) mod 65536 = 0.
Proof. exact tiger_div_mod_recompose. Qed.
Print Assumptions C19_quotient_remainder_recompose.

Example C19_example : tiger_div 65530 2 = 65533 /\ tiger_mod 65529 2 = 65535 /\ tiger_div 7 65534 = 65533.
Proof. repeat split. Qed.     (* -6/2 = -3, -7 mod 2 = -1, 7/-2 = -3 *)

(* ---- two routines written in HERA assembly (register convention), on the specification machine ------- *)
From Coq Require Import List.
From Hera.Lib Require Import Py Machine.
From Hera.Spec Require Import ISA.
From Hera.Proofs Require Import C19_Routines.

(* size(s): R1 := memory[R1] (the length cell); returns to the caller; FP restored from FP_alt; SP,
   R2..R11 and memory untouched — for every state *)
Theorem C19_size_reg_contract : forall s, List.length (regs s) = 16%nat ->
  let s' := run_list size_reg_code s in
  getreg s' 1 = mem_read (mem s) (getreg s 1 mod 65536) /\ pc s' = getreg s 13 /\
  getreg s' 14 = getreg s 12 /\ getreg s' 15 = getreg s 15 /\ mem s' = mem s /\
  (forall r, 2 <= r <= 11 -> getreg s' r = getreg s r).
Proof. exact size_reg_contract. Qed.
Print Assumptions C19_size_reg_contract.

(* ord(s): R1 := memory[R1 + 1] (the first character) *)
Theorem C19_ord_reg_contract : forall s, List.length (regs s) = 16%nat ->
  let s' := run_list ord_reg_code s in
  getreg s' 1 = mem_read (mem s) ((getreg s 1 + 1) mod 65536) /\ pc s' = getreg s 13 /\
  getreg s' 14 = getreg s 12 /\ getreg s' 15 = getreg s 15 /\ mem s' = mem s /\
  (forall r, 2 <= r <= 11 -> getreg s' r = getreg s r).
Proof. exact ord_reg_contract. Qed.
Print Assumptions C19_ord_reg_contract.
