(* C19 — the built-in Tiger standard library keeps its contracts (PARTIAL: div and mod, whose
   arithmetic is Python code shared by both calling conventions, are theorems on Model/Stdlib.v;
   the functions written in HERA assembly (size, ord, chr, not, concat, substring, tstrcmp, malloc)
   and the calling contract are decided by the oracle that runs them on the real interpreter). *)
From Coq Require Import ZArith.
From Hera.Model Require Import Stdlib.
From Hera.Proofs Require Import C19_DivMod.
Open Scope Z_scope.

Theorem C19_div_is_signed_division : forall l r, signed r <> 0 ->
  tiger_div l r = (Z.quot (signed l) (signed r)) mod 65536.
Proof. exact tiger_div_spec. Qed.
Print Assumptions C19_div_is_signed_division.

Theorem C19_mod_is_signed_remainder : forall l r, signed r <> 0 ->
  tiger_mod l r = (Z.rem (signed l) (signed r)) mod 65536.
Proof. exact tiger_mod_spec. Qed.
Print Assumptions C19_mod_is_signed_remainder.

Theorem C19_zero_divisor : forall l r, signed r = 0 -> tiger_div l r = 0 /\ tiger_mod l r = 0.
Proof. exact tiger_div_mod_zero. Qed.
Print Assumptions C19_zero_divisor.

Theorem C19_results_are_words : forall l r, word (tiger_div l r) /\ word (tiger_mod l r).
Proof. exact tiger_div_mod_word. Qed.
Print Assumptions C19_results_are_words.

Theorem C19_quotient_remainder_recompose : forall l r, signed r <> 0 ->
  (signed r * signed (tiger_div l r) + signed (tiger_mod l r) - signed l) mod 65536 = 0.
Proof. exact tiger_div_mod_recompose. Qed.
Print Assumptions C19_quotient_remainder_recompose.

Example C19_example : tiger_div 65530 2 = 65533 /\ tiger_mod 65529 2 = 65535 /\ tiger_div 7 65534 = 65533.
Proof. repeat split. Qed.     (* -6/2 = -3, -7 mod 2 = -1, 7/-2 = -3 *)

(* ---- two routines written in HERA assembly (register convention), on the specification machine ------- *)
From Coq Require Import List.
From Hera.Lib Require Import Py Machine.
From Hera.Spec Require Import ISA.
From Hera.Proofs Require Import C19_Routines.

(* size(s): R1 := memory[R1] (the length cell); returns to the caller; FP restored from FP_alt; SP,
   R2..R11 and memory untouched — for every state *)
Theorem C19_size_reg_contract : forall s, List.length (regs s) = 16%nat ->
  let s' := run_list size_reg_code s in
  getreg s' 1 = mem_read (mem s) (getreg s 1 mod 65536) /\ pc s' = getreg s 13 /\
  getreg s' 14 = getreg s 12 /\ getreg s' 15 = getreg s 15 /\ mem s' = mem s /\
  (forall r, 2 <= r <= 11 -> getreg s' r = getreg s r).
Proof. exact size_reg_contract. Qed.
Print Assumptions C19_size_reg_contract.

(* ord(s): R1 := memory[R1 + 1] (the first character) *)
Theorem C19_ord_reg_contract : forall s, List.length (regs s) = 16%nat ->
  let s' := run_list ord_reg_code s in
  getreg s' 1 = mem_read (mem s) ((getreg s 1 + 1) mod 65536) /\ pc s' = getreg s 13 /\
  getreg s' 14 = getreg s 12 /\ getreg s' 15 = getreg s 15 /\ mem s' = mem s /\
  (forall r, 2 <= r <= 11 -> getreg s' r = getreg s r).
Proof. exact ord_reg_contract. Qed.
Print Assumptions C19_ord_reg_contract.

(* ---- routines with control flow and with stack frames, placed at any address ---------------------------- *)
From Hera.Spec Require Import Wf.
From Hera.Lib Require Import Word16.
From Hera.Proofs Require Import SpecCore C19_Not C19_Stack C19_NotStack.

(* the register file, memory, program counter and flags of the specification machine evolve on their
   own: hera-py's bookkeeping (warnings, call stack, counters) never feeds back into them *)
Theorem C19_core_simulation : forall i s c c', sim s c -> valid_instr i = true -> cstep i c = Some c' -> sim (step i s) c'.
Proof. exact sim_step. Qed.
Print Assumptions C19_core_simulation.

(* not(x), register convention, at any address base: 1 for 0, 0 otherwise; back to the caller; FP restored;
   SP, memory and R2..R10 untouched (R11 is the scratch register of the label branch) *)
Theorem C19_not_reg_contract : forall base s,
  0 <= base -> base + 10 < 65536 -> List.length (regs s) = 16%nat -> pc s = base ->
  getreg s 0 = 0 -> 0 <= getreg s 1 < 65536 ->
  exists n s', run_at base (not_reg_code base) n s = Some s' /\
    getreg s' 1 = (if getreg s 1 =? 0 then 1 else 0) /\ pc s' = getreg s 13 /\
    getreg s' 14 = getreg s 12 /\ getreg s' 15 = getreg s 15 /\ mem s' = mem s /\
    (forall j, 2 <= j <= 10 -> getreg s' j = getreg s j).
Proof. exact not_reg_contract. Qed.
Print Assumptions C19_not_reg_contract.

(* size / ord, stack convention (k = 0 / 1): the result cell FP+3 receives memory[argument + k]; R1..R11
   and SP come back unchanged, FP is restored, only the cells FP+3 and FP+4 are written *)
Theorem C19_stack_load_contract : forall k base s,
  0 <= k < 32 -> List.length (regs s) = 16%nat -> pc s = base -> wf_mem (mem s) ->
  0 <= getreg s 15 < 65536 -> word (getreg s 1) ->
  let a3 := (getreg s 14 + 3) mod 65536 in let a4 := (getreg s 14 + 4) mod 65536 in
  let arg := mem_read (mem s) a3 in
  (arg + k) mod 65536 <> a4 ->
  exists s', run_at base (stack_load_code k) 8 s = Some s' /\
    mem_read (mem s') a3 = mem_read (mem s) ((arg + k) mod 65536) /\
    (forall b, 0 <= b -> b <> a3 -> b <> a4 -> mem_read (mem s') b = mem_read (mem s) b) /\
    getreg s' 1 = getreg s 1 /\ pc s' = getreg s 13 /\ getreg s' 14 = getreg s 12 /\
    getreg s' 15 = getreg s 15 /\ (forall j, 2 <= j <= 11 -> getreg s' j = getreg s j).
Proof. exact stack_load_contract. Qed.
Print Assumptions C19_stack_load_contract.

(* not(x), stack convention, at any address *)
Theorem C19_not_stack_contract : forall base s,
  0 <= base -> base + 23 < 65536 -> List.length (regs s) = 16%nat -> pc s = base -> wf_mem (mem s) ->
  getreg s 0 = 0 -> 0 <= getreg s 15 < 65536 -> word (getreg s 1) -> word (getreg s 12) -> word (getreg s 13) ->
  let a0 := (getreg s 14 + 0) mod 65536 in let a1 := (getreg s 14 + 1) mod 65536 in
  let a3 := (getreg s 14 + 3) mod 65536 in let a4 := (getreg s 14 + 4) mod 65536 in
  let arg := mem_read (mem s) a3 in
  exists n s', run_at base (not_stack_code base) n s = Some s' /\
    mem_read (mem s') a3 = (if arg =? 0 then 1 else 0) /\
    (forall b, 0 <= b -> b <> a0 -> b <> a1 -> b <> a3 -> b <> a4 -> mem_read (mem s') b = mem_read (mem s) b) /\
    getreg s' 1 = getreg s 1 /\ pc s' = getreg s 13 /\ getreg s' 14 = getreg s 12 /\
    getreg s' 15 = getreg s 15 /\ (forall j, 2 <= j <= 10 -> getreg s' j = getreg s j).
Proof. exact not_stack_contract. Qed.
Print Assumptions C19_not_stack_contract.

(* ---- malloc (register convention) is a bump allocator, and bump allocators hand out disjoint blocks ------- *)
From Hera.Proofs Require Import C19_Malloc.

(* one call = one step of the abstract allocator [alloc] on the cell 0x4000; the caller's R2..R8, SP and
   every other memory cell are untouched; control returns to PC_ret with FP restored *)
Theorem C19_malloc_reg_refines_alloc : forall base s p q,
  List.length (regs s) = 16%nat -> pc s = base -> wf_mem (mem s) -> getreg s 0 = 0 -> word (getreg s 1) ->
  alloc (mem_read (mem s) heap_cell) (getreg s 1) = Some (p, q) ->
  exists n s', run_at base malloc_reg_code n s = Some s' /\
    getreg s' 1 = p /\ mem_read (mem s') heap_cell = q /\
    (forall b, 0 <= b -> b <> heap_cell -> mem_read (mem s') b = mem_read (mem s) b) /\
    pc s' = getreg s 13 /\ getreg s' 14 = getreg s 12 /\ getreg s' 15 = getreg s 15 /\
    (forall j, 2 <= j <= 8 -> getreg s' j = getreg s j).
Proof. exact malloc_reg_contract. Qed.
Print Assumptions C19_malloc_reg_refines_alloc.

(* over any sequence of requests, from an uninitialised (0) or valid heap pointer: every block lies strictly
   inside the heap and an earlier block ends at or before the start of every later one *)
Theorem C19_malloc_blocks_disjoint : forall cur ns, heap_ok cur -> Forall (fun n => 0 <= n) ns ->
  ForallOrdPairs (fun b1 b2 => fst b1 + snd b1 <= fst b2) (alloc_seq cur ns) /\
  Forall (fun b => heap_cell < fst b /\ fst b + snd b < heap_end) (alloc_seq cur ns).
Proof. exact alloc_seq_disjoint. Qed.
Print Assumptions C19_malloc_blocks_disjoint.

(* malloc, stack convention, at any address: the same bump allocator; request and result in the frame cell
   FP+3; R1..R10, SP come back unchanged; only the frame cells FP+0..FP+6 and the heap pointer are written *)
From Hera.Proofs Require Import C19_MallocStack.
Theorem C19_malloc_stack_refines_alloc : forall base s p q,
  0 <= base -> base + 41 < 65536 -> List.length (regs s) = 16%nat -> pc s = base -> wf_mem (mem s) ->
  getreg s 0 = 0 -> 0 <= getreg s 15 -> getreg s 15 + 3 < 65536 ->
  word (getreg s 1) -> word (getreg s 2) -> word (getreg s 3) -> word (getreg s 12) -> word (getreg s 13) ->
  let a k := (getreg s 14 + k) mod 65536 in
  (forall k, 0 <= k <= 6 -> a k <> heap_cell) ->
  alloc (mem_read (mem s) heap_cell) (mem_read (mem s) (a 3)) = Some (p, q) ->
  exists n s', run_at base (malloc_stack_code base) n s = Some s' /\
    mem_read (mem s') (a 3) = p /\ mem_read (mem s') heap_cell = q /\
    (forall b, 0 <= b -> b <> heap_cell -> (forall k, 0 <= k <= 6 -> b <> a k) -> mem_read (mem s') b = mem_read (mem s) b) /\
    getreg s' 1 = getreg s 1 /\ getreg s' 2 = getreg s 2 /\ getreg s' 3 = getreg s 3 /\
    pc s' = getreg s 13 /\ getreg s' 14 = getreg s 12 /\ getreg s' 15 = getreg s 15 /\
    (forall j, 4 <= j <= 10 -> getreg s' j = getreg s j).
Proof. exact malloc_stack_contract. Qed.
Print Assumptions C19_malloc_stack_refines_alloc.

(* ---- a routine with a loop: the word copy used by concat and substring, for every count ------------------- *)
From Hera.Proofs Require Import C19_Memcpy.

(* placed at any address, for every state and every count R3 (no bound on the iterations: the proof is an
   induction on the count): memory becomes the forward copy [copy]; both pointers advance by the count; the
   counter ends at 0; control returns to PC_ret with FP restored; SP and R5..R10 are untouched; with the
   carry-block flag on (the library's calling convention) the scratch register R11 is restored too *)
Theorem C19_memcpy_contract : forall base s,
  0 <= base -> base + 14 < 65536 -> List.length (regs s) = 16%nat -> pc s = base -> getreg s 0 = 0 ->
  word (getreg s 1) -> word (getreg s 2) -> word (getreg s 3) -> word (getreg s 11) ->
  exists n s', run_at base (memcpy_code base) n s = Some s' /\
    mem s' = copy (mem s) (getreg s 1) (getreg s 2) (Z.to_nat (getreg s 3)) /\
    getreg s' 1 = (getreg s 1 + getreg s 3) mod 65536 /\ getreg s' 2 = (getreg s 2 + getreg s 3) mod 65536 /\
    getreg s' 3 = 0 /\ pc s' = getreg s 13 /\ getreg s' 14 = getreg s 12 /\ getreg s' 15 = getreg s 15 /\
    (forall j, 5 <= j <= 10 -> getreg s' j = getreg s j) /\
    (flag (f_cb s) = true -> getreg s' 11 = getreg s 11).
Proof. exact memcpy_contract. Qed.
Print Assumptions C19_memcpy_contract.

(* what [copy] does: when no source word is a destination word, destination word i receives source word i,
   and every address outside the destination keeps its contents (addresses wrap at 2^16) *)
Theorem C19_copy_moves_the_words : forall n m s d, wf_mem m -> 0 <= s < 65536 -> 0 <= d < 65536 -> Z.of_nat n <= 65536 ->
  (forall i j, 0 <= i < Z.of_nat n -> 0 <= j < Z.of_nat n -> (s + i) mod 65536 <> (d + j) mod 65536) ->
  forall i, 0 <= i < Z.of_nat n -> mem_read (copy m s d n) ((d + i) mod 65536) = mem_read m ((s + i) mod 65536).
Proof. exact copy_spec. Qed.
Print Assumptions C19_copy_moves_the_words.

Theorem C19_copy_leaves_the_rest : forall n m s d a, wf_mem m -> 0 <= s < 65536 -> 0 <= d < 65536 -> 0 <= a ->
  (forall i, 0 <= i < Z.of_nat n -> a <> (d + i) mod 65536) ->
  mem_read (copy m s d n) a = mem_read m a.
Proof. exact copy_outside. Qed.
Print Assumptions C19_copy_leaves_the_rest.

(* ---- a routine that calls another routine: chr (register convention) calls malloc --------------------------- *)
From Hera.Proofs Require Import C19_Chr.

(* in ANY program map that holds chr's instructions at cbase and malloc's at mbase (only valid instructions
   anywhere), for every state whose frame cells FP+0..FP+5 lie outside the heap: chr(c) returns in R1 a fresh block
   of the allocator (one [alloc] step of size 2) holding the string [1; c]; it returns to PC_ret with FP and SP
   restored, R2..R8 unchanged, and writes only the heap pointer, the block and its frame cells.  The callee's
   contract ([malloc_reg_core], proved on malloc's own instruction list) is reused inside the caller's run. *)
Theorem C19_chr_reg_contract : forall prog cbase mbase s p q,
  contains prog cbase (chr_reg_code mbase) -> contains prog mbase malloc_reg_code ->
  (forall a i, prog a = Some i -> valid_instr i = true) ->
  0 <= cbase -> cbase + 24 < 65536 -> 0 <= mbase < 65536 ->
  List.length (regs s) = 16%nat -> pc s = cbase -> getreg s 0 = 0 ->
  word (getreg s 1) -> word (getreg s 2) -> word (getreg s 12) -> word (getreg s 13) -> word (getreg s 15) ->
  wf_mem (mem s) -> heap_ok (mem_read (mem s) heap_cell) ->
  (forall k, 0 <= k <= 5 -> (getreg s 14 + k) mod 65536 < heap_cell \/ heap_end <= (getreg s 14 + k) mod 65536) ->
  alloc (mem_read (mem s) heap_cell) 2 = Some (p, q) ->
  exists n s', run_in prog n s = Some s' /\
    getreg s' 1 = p /\ mem_read (mem s') p = 1 /\ mem_read (mem s') (p + 1) = getreg s 1 /\
    mem_read (mem s') heap_cell = q /\
    pc s' = getreg s 13 /\ getreg s' 14 = getreg s 12 /\ getreg s' 15 = getreg s 15 /\ getreg s' 2 = getreg s 2 /\
    (forall j, 3 <= j <= 8 -> getreg s' j = getreg s j) /\
    (forall b, 0 <= b < 65536 -> b <> heap_cell -> b <> p -> b <> p + 1 ->
       (forall k, 0 <= k <= 5 -> b <> (getreg s 14 + k) mod 65536) -> mem_read (mem s') b = mem_read (mem s) b).
Proof. exact chr_reg_contract. Qed.
Print Assumptions C19_chr_reg_contract.

(* the premises are satisfiable: malloc at 0, chr behind it, chr(65) on an empty heap, by computation *)
Example C19_chr_runs_somewhere :
  let c0 := mkcore (fun j => if j =? 1 then 65 else if j =? 13 then 777 else if j =? 15 then 100 else if j =? 14 then 100 else 0)
                   (mkmem 0 nil) 20 false false false false true in
  exists c', crun_in demo_prog 45 c0 = Some c' /\ cr c' 1 = 16385 /\ cpc c' = 777 /\
             map (mem_read (cmem c')) (16384 :: 16385 :: 16386 :: nil) = (16387 :: 1 :: 65 :: nil) /\ cr c' 15 = 100.
Proof. exact chr_runs_somewhere. Qed.

(* ---- the stack-convention chr: two frames on the stack, the stack malloc as callee --------------------------- *)
From Hera.Proofs Require Import C19_ChrStack.

(* for a stack that does not wrap and lies on one side of the heap, with FP + 4 <= SP (what the calling sequence of a
   one-argument function guarantees): chr(c) stores in its result cell FP+3 the address of a fresh two-cell allocator
   block holding [1; c] (the allocator advances by exactly 2), restores R1, R2, FP, SP, keeps R3..R10, returns to its
   caller, and writes nothing but the heap pointer, the block, its own frame FP..FP+5 and malloc's frame SP+2..SP+8 *)
Theorem C19_chr_stack_contract : forall prog cbase mbase s p q,
  contains prog cbase (chr_stack_code mbase) -> contains prog mbase (malloc_stack_code mbase) ->
  (forall a i, prog a = Some i -> valid_instr i = true) ->
  0 <= cbase -> cbase + 26 < 65536 -> 0 <= mbase -> mbase + 41 < 65536 ->
  List.length (regs s) = 16%nat -> pc s = cbase -> getreg s 0 = 0 ->
  word (getreg s 1) -> word (getreg s 2) -> word (getreg s 3) -> word (getreg s 12) -> word (getreg s 13) ->
  0 <= getreg s 14 -> getreg s 14 + 4 <= getreg s 15 -> getreg s 15 + 10 < 65536 ->
  (getreg s 15 + 8 < heap_cell \/ heap_end <= getreg s 14) ->
  wf_mem (mem s) -> heap_ok (mem_read (mem s) heap_cell) ->
  alloc (mem_read (mem s) heap_cell) 2 = Some (p, q) ->
  exists n s', run_in prog n s = Some s' /\
    mem_read (mem s') (getreg s 14 + 3) = p /\ mem_read (mem s') p = 1 /\
    mem_read (mem s') (p + 1) = mem_read (mem s) (getreg s 14 + 3) /\ mem_read (mem s') heap_cell = q /\
    getreg s' 1 = getreg s 1 /\ getreg s' 2 = getreg s 2 /\ pc s' = getreg s 13 /\
    getreg s' 14 = getreg s 12 /\ getreg s' 15 = getreg s 15 /\
    (forall j, 3 <= j <= 10 -> getreg s' j = getreg s j) /\
    (forall b, 0 <= b < 65536 -> b <> heap_cell -> b <> p -> b <> p + 1 ->
       ~ (getreg s 14 <= b <= getreg s 14 + 5) -> ~ (getreg s 15 + 2 <= b <= getreg s 15 + 8) ->
       mem_read (mem s') b = mem_read (mem s) b).
Proof. exact chr_stack_contract. Qed.
Print Assumptions C19_chr_stack_contract.

Example C19_chr_stack_runs_somewhere :
  let c0 := mkcore (fun j => if j =? 13 then 777 else if j =? 15 then 104 else if j =? 14 then 100 else if j =? 1 then 11 else 0)
                   (mem_write (mkmem 0 nil) 103 65) 36 false false false false true in
  exists c', crun_in demo_stack_prog 63 c0 = Some c' /\ cpc c' = 777 /\ cr c' 1 = 11 /\ cr c' 15 = 104 /\
             map (mem_read (cmem c')) (103 :: 16384 :: 16385 :: 16386 :: nil) = (16385 :: 16387 :: 1 :: 65 :: nil).
Proof. exact chr_stack_runs_somewhere. Qed.

(* ---- the register-convention tstrcmp (a Python helper, Model/Stdlib.tstrcmp_reg) is the lexicographic order ------- *)
From Hera.Proofs Require Import C19_Strcmp.

(* for every memory and any two strings: the result is 0, 0xFFFF (-1) or 1 according to the lexicographic comparison of
   the two character lists — a proper prefix is smaller — for strings of any length *)
Theorem C19_tstrcmp_reg_is_lexicographic : forall rd s1 s2, 0 <= rd s1 -> 0 <= rd s2 ->
  tstrcmp_reg rd s1 s2 = enc (lex (chars rd s1) (chars rd s2)).
Proof. exact tstrcmp_reg_is_lex. Qed.
Print Assumptions C19_tstrcmp_reg_is_lexicographic.

Theorem C19_tstrcmp_reg_zero_iff_equal : forall rd s1 s2, 0 <= rd s1 -> 0 <= rd s2 ->
  (tstrcmp_reg rd s1 s2 = 0 <-> chars rd s1 = chars rd s2).
Proof. exact tstrcmp_reg_zero_iff_equal. Qed.
Print Assumptions C19_tstrcmp_reg_zero_iff_equal.

Theorem C19_tstrcmp_reg_antisymmetric : forall rd s1 s2, 0 <= rd s1 -> 0 <= rd s2 ->
  tstrcmp_reg rd s2 s1 = enc (CompOpp (lex (chars rd s1) (chars rd s2))).
Proof. exact tstrcmp_reg_antisymmetric. Qed.
Print Assumptions C19_tstrcmp_reg_antisymmetric.

(* ---- the stack-convention tstrcmp: HERA assembly with a loop and two early exits ------------------------------ *)
From Hera.Proofs Require Import C19_StrcmpStack.

(* placed at any address, with the carry-block flag on (the library's convention), for EVERY pair of strings whose
   lengths and characters are below 2^15 and which lie outside the frame FP..FP+10 (no bound on the lengths: the loop
   is handled by induction): the result cell FP+3 receives a word whose sign is the lexicographic comparison of the
   two character lists (0 exactly for equal strings, negative when the first is smaller, a proper prefix included);
   control returns to PC_ret, FP and SP are restored, R1..R10 come back unchanged and nothing outside the frame is
   written *)
Theorem C19_tstrcmp_stack_contract : forall base s,
  0 <= base -> base + 68 < 65536 -> List.length (regs s) = 16%nat -> pc s = base -> getreg s 0 = 0 ->
  flag (f_cb s) = true ->
  word (getreg s 1) -> word (getreg s 2) -> word (getreg s 3) -> word (getreg s 4) -> word (getreg s 5) -> word (getreg s 6) ->
  word (getreg s 12) -> word (getreg s 13) -> word (getreg s 15) -> wf_mem (mem s) ->
  let f := getreg s 14 in let rd := mem_read (mem s) in let pa := rd (f + 3) in let pb := rd (f + 4) in
  0 <= f -> f + 10 < 65536 -> 0 <= rd pa < 32768 -> 0 <= rd pb < 32768 ->
  (pa + rd pa < f \/ f + 10 < pa) -> (pb + rd pb < f \/ f + 10 < pb) -> pa + rd pa + 1 < 65536 -> pb + rd pb + 1 < 65536 ->
  (forall j, 0 <= j < rd pa -> rd (pa + j + 1) < 32768) -> (forall j, 0 <= j < rd pb -> rd (pb + j + 1) < 32768) ->
  exists n s', run_at base (tstrcmp_stack_code base) n s = Some s' /\
    sign_of (mem_read (mem s') (f + 3)) = lex (chars rd pa) (chars rd pb) /\
    pc s' = getreg s 13 /\ getreg s' 14 = getreg s 12 /\ getreg s' 15 = getreg s 15 /\
    (forall j, 1 <= j <= 10 -> getreg s' j = getreg s j) /\
    (forall b, 0 <= b < 65536 -> ~ (f <= b <= f + 10) -> mem_read (mem s') b = mem_read (mem s) b).
Proof. exact tstrcmp_stack_contract. Qed.
Print Assumptions C19_tstrcmp_stack_contract.

(* the value itself: -1 / 1 from the first differing character, else the difference of the lengths *)
Theorem C19_strcmp_result_sign : forall rd pa pb, 0 <= rd pa < 32768 -> 0 <= rd pb < 32768 ->
  sign_of (strcmp_result rd pa pb) = lex (chars rd pa) (chars rd pb).
Proof. exact strcmp_result_sign. Qed.
Print Assumptions C19_strcmp_result_sign.
