(* C14 — expressions of the debugger's mini-language evaluate as ordinary integer arithmetic with
   range and zero-divisor errors (value part); the grammar part relates the Pratt parser to the
   textbook stratified grammar.  The "no command line crashes or hangs the shell" part is decided
   by the implementation-level oracle of the check and the session correspondence (PARTIAL). *)
From Coq Require Import ZArith List.
From Hera.Lib Require Import Py Machine.
From Hera.Spec Require Import ISA ExprSpec.
From Hera.Model Require Import MiniParser.
From Hera.Proofs Require Import C14_Expr.
Import ListNotations.
Open Scope Z_scope.

Theorem C14_eval_exact : forall s st e v, eval s st e = Some v <-> evals s st e v.
Proof. exact eval_exact. Qed.
Print Assumptions C14_eval_exact.

Theorem C14_eval_error_iff : forall s st e, eval s st e = None <-> forall v, ~ evals s st e v.
Proof. exact eval_error_iff. Qed.
Print Assumptions C14_eval_error_iff.

Theorem C14_meaning_unique : forall s st e v1 v2, evals s st e v1 -> evals s st e v2 -> v1 = v2.
Proof. exact evals_fun. Qed.
Print Assumptions C14_meaning_unique.

(* ---- grammar part ------------------------------------------------------------------------------------- *)
From Hera.Spec Require Import ExprGrammar.
From Hera.Gen Require Import DebugTables.
From Hera.Proofs Require Import C14_Pratt.
From Coq Require Import String.

(* whatever the Pratt parser accepts at precedence p is a sum (p < 1), a product (p = 1) or a
   unary expression (p >= 2) of the stratified grammar, with the tree that grammar assigns *)
Theorem C14_pratt_sound : forall fuel p ts e r, match_expr fuel p ts = POk e r -> Level p ts e r.
Proof. exact match_expr_sound. Qed.
Print Assumptions C14_pratt_sound.

Theorem C14_parse_expr_sound : forall fuel ts e r, match_expr fuel 0 ts = POk e r ->
  Sum ts e r /\ starts_add r = false /\ starts_mul r = false.
Proof. exact parse_expr_sound. Qed.
Print Assumptions C14_parse_expr_sound.

(* the precedences the model uses are the ones in hera/debugger/miniparser.py *)
Theorem C14_precedences_from_source :
  MINIPARSER_PREC_MAP = [("ASTERISK", prec_of OpMul); ("MINUS", prec_of OpSub); ("PLUS", prec_of OpAdd);
                         ("SLASH", prec_of OpDiv)]%string /\
  MINIPARSER_PREC_LOWEST = 0 /\ MINIPARSER_PREC_PREFIX = PREC_PREFIX.
Proof. repeat split. Qed.
Print Assumptions C14_precedences_from_source.

(* ---- completeness on the standard renderings --------------------------------------------------------- *)
From Hera.Proofs Require Import C14_Render C14_Complete.

(* every derivation of the grammar is found by the parser, given enough fuel *)
Theorem C14_pratt_complete : forall ts e r, Sum ts e r ->
  exists n, forall f, (n <= f)%nat -> match_expr f 0 ts = POk e r.
Proof. exact (proj2 (proj2 (proj2 (proj2 parser_complete)))). Qed.
Print Assumptions C14_pratt_complete.

(* any expression tree, written with the usual minimal parentheses (left-associative operators,
   * and / binding tighter than + and -, prefix operators tightest), is read back as that tree *)
Theorem C14_parse_render : forall e rest, starts_add rest = false -> starts_mul rest = false ->
  exists n, forall f, (n <= f)%nat -> match_expr f 0 (render e ++ rest) = POk e rest.
Proof. exact parse_render. Qed.
Print Assumptions C14_parse_render.

(* ---- no internal error from the state-changing commands (on the session model) ------------------------ *)
From Hera.Spec Require Import Wf.
From Hera.Model Require Import Run Debugger Session.
From Hera.Proofs Require Import C02_Run C11_Debug C14_Total.

(* from a well-formed machine, every stepping / breakpoint / flag / goto / restart / assignment /
   undo / read-only command returns a session, or runs out of the model's fuel (the debugged
   program's own non-termination); `execute` is not covered here *)
Theorem C14_session_commands_do_not_raise : forall fuel code data st c s,
  code_ok (rops code) -> only_last_branches code -> wf_vm (d_vm (s_cur s)) -> cmd_ok data s c ->
  fine (sess_step fuel code data st c s).
Proof. exact sess_step_fine. Qed.
Print Assumptions C14_session_commands_do_not_raise.

(* what the user is shown: every numeric form format_int prints for a 16-bit value (Model/Format.v, tied to
   hera/utils.py format_int by the C14 correspondence) reads back, as an integer literal, to that value; the signed
   form is present exactly when the sign bit is set and reads back to the two's-complement value *)
From Hera.Model Require Import Format.
From Hera.Proofs Require Import C14_Format.
Theorem C14_formats_read_back : forall v, 0 <= v < 65536 ->
  read_int (fmt_d v) = Some v /\ read_int (fmt_x v) = Some v /\ read_int (fmt_o v) = Some v /\
  read_int (fmt_b v) = Some v /\ (32768 <= v -> read_int (fmt_s v) = Some (v - 65536)).
Proof. exact formats_read_back. Qed.
Print Assumptions C14_formats_read_back.

Theorem C14_format_piece_denotes : forall v c p, 0 <= v < 65536 -> piece v c = Some (Some p) ->
  ((c = 100 \/ c = 120 \/ c = 111 \/ c = 98) -> read_int p = Some v) /\
  (c = 115 -> 32768 <= v /\ read_int p = Some (v - 65536)).
Proof. exact piece_denotes. Qed.
Print Assumptions C14_format_piece_denotes.

Theorem C14_signed_shown_iff : forall v, piece v 115 = Some None <-> v < 32768.
Proof. exact signed_shown_iff. Qed.
Print Assumptions C14_signed_shown_iff.

Theorem C14_default_dump : forall v, 0 <= v < 65536 ->
  format_int v [120; 100; 115; 99] =
  Some (join_eq ([fmt_x v; fmt_d v] ++ (if 32768 <=? v then [fmt_s v] else []) ++
                 (if printable v then [repr_chr v] else []))).
Proof. exact default_dump. Qed.
Print Assumptions C14_default_dump.

Example C14_format_example :
  format_int 65 [120; 100; 115; 99] = Some [48; 120; 48; 48; 52; 49; 32; 61; 32; 54; 53; 32; 61; 32; 39; 65; 39] /\
  format_int 65535 [100; 115] = Some [54; 53; 53; 51; 53; 32; 61; 32; 45; 49].
Proof. vm_compute. split; reflexivity. Qed.
