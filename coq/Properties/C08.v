(* C08 — accepted programs never go wrong later.
   An operation the checker accepts (Model/Preproc.v, tied by correspondence; P tables and convert
   regenerated) expands without raising to real instructions every operand of which fits its machine
   field [valid_instr]; such instructions assemble to their table word (C05) and execute without
   raising, keeping the machine well-formed (C01/C02), for runs of any length. *)
From Coq Require Import ZArith List Bool String.
From Hera.Lib Require Import Py Machine.
From Hera.Gen Require Import Ops Tables Convert.
From Hera.Spec Require Import ISA Wf EncTable.
From Hera.Model Require Import OpRep InstrOf Bitvec Preproc Run.
From Hera.Proofs Require Import C02_Step C02_Exec C02_Run C02_Init C05_Sweep C05_Codec C08_Safe.
Import ListNotations.
Open Scope Z_scope.

Theorem C08_accepted_op_converts : forall c ts st,
  expands_to_instructions c = true ->
  Forall tok_wf ts -> st_wf_labels st ->
  has_errors (default_typecheck (mkop c ts) st) = false ->
  exists ts' l, subst_tokens ts st = Ok ts' /\ convert_full (mkop c ts') = Ok l.
Proof. exact accepted_op_converts. Qed.
Print Assumptions C08_accepted_op_converts.

Theorem C08_accepted_op_valid : forall c ts st ts' l,
  expands_to_instructions c = true ->
  Forall tok_wf ts -> st_wf_labels st ->
  has_errors (default_typecheck (mkop c ts) st) = false ->
  rel_symbol_is_constant c ts st ->
  subst_tokens ts st = Ok ts' ->
  convert_full (mkop c ts') = Ok l ->
  Forall is_valid_real l.
Proof. exact accepted_op_valid. Qed.
Print Assumptions C08_accepted_op_valid.

Theorem C08_rel_label_valid : forall c jump rest l,
  is_relative_branch c = true -> -128 <= jump < 128 ->
  convert_full (mkop c (tok_int (PI jump) :: rest)) = Ok l -> rest = [] ->
  Forall is_valid_real l.
Proof. exact rel_label_valid. Qed.
Print Assumptions C08_rel_label_valid.

(* what follows for such instructions: they assemble ... *)
Theorem C08_valid_assembles : forall i, valid_instr i = true ->
  assemble_word (op_of_instr i) = Some (word_of i).
Proof. exact encode_table. Qed.
Print Assumptions C08_valid_assembles.

(* ... and they execute, from any well-formed state, without raising *)
Theorem C08_valid_executes : forall o args i s,
  wf_vm s -> pc_ok s -> instr_of o args = Some i -> valid_instr i = true -> runnable i = true ->
  exists s', exec o (map PI args) s = Ok (tt, s') /\ wf_vm s' /\ op_count s' = op_count s.
Proof. exact exec_wf. Qed.
Print Assumptions C08_valid_executes.

(* ... for runs of any length *)
Theorem C08_run_never_raises : forall p fuel s, program_ok p (cfg s) -> init_ok (cfg s) ->
  match run fuel p s with
  | Ok s' => wf_vm s'
  | Raise OutOfFuel => True
  | Raise _ => False
  end.
Proof. exact run_wf. Qed.
Print Assumptions C08_run_never_raises.

(* ---- whole programs: what was checked is what is substituted --------------------------------------------- *)
From Hera.Proofs Require Import C08_Symtab C08_Program.

(* In a program the checker accepts (tokens as the parser builds them), the symbol table in force when any
   operation is type-checked is contained, binding for binding, in the table the preprocessor later
   substitutes from: a name is never re-bound (that is a redeclaration error) and never disappears.  So the
   operand values that C08_accepted_op_valid range-checks are the values that reach the instruction. *)
Theorem C08_symbol_table_only_grows : forall c ops st msgs,
  Forall (fun o => Forall tok_wf (o_toks o)) ops ->
  typecheck c ops = (st, msgs) -> has_errors msgs = false ->
  forall a b, ops = a ++ b ->
    ext (tc_st (fold_left (typecheck_step c) a
                  (mktc (fst (get_labels c ops)) false (check_redecl ops [] ++ snd (get_labels c ops))))) st.
Proof. exact accepted_symtab_stable. Qed.
Print Assumptions C08_symbol_table_only_grows.

(* declared names of a program without redeclaration errors are pairwise different *)
Theorem C08_declared_names_distinct : forall ops seen, has_errors (check_redecl ops seen) = false ->
  forall a o b s, ops = a ++ o :: b -> decl_name o = Some s ->
    existsb (py_eqb s) seen = false /\ (forall x, In x (decls a) -> py_eqb s x = false) /\
    (forall y, In y (decls b) -> py_eqb y s = false).
Proof. exact redecl_clean. Qed.
Print Assumptions C08_declared_names_distinct.

(* THE PROGRAM-LEVEL STATEMENT.  In a program the checker accepts, every operation that expands to machine
   instructions is substituted from the final symbol table without a missing symbol, expands without raising,
   and every instruction it expands to has operands that fit their machine fields (relative branches whose
   operand names a label take the other path of convert_ops: C08_rel_label_valid).  Together with
   C08_valid_assembles / C08_valid_executes / C08_run_never_raises this is "accepted programs never go wrong
   later" for the instruction stream. *)
Theorem C08_accepted_program_op_valid : forall c ops st msgs a o b,
  Forall (fun o => Forall tok_wf (o_toks o)) ops ->
  typecheck c ops = (st, msgs) -> has_errors msgs = false -> ops = a ++ o :: b ->
  expands_to_instructions (o_cls o) = true ->
  rel_symbol_is_constant (o_cls o) (o_toks o) st ->
  exists ts' l, subst_tokens (o_toks o) st = Ok ts' /\ convert_full (mkop (o_cls o) ts') = Ok l /\ Forall is_valid_real l.
Proof. exact accepted_program_op_valid. Qed.
Print Assumptions C08_accepted_program_op_valid.

(* code labels of an accepted program are addresses below 2^16 *)
Theorem C08_accepted_labels_ok : forall c ops st msgs,
  typecheck c ops = (st, msgs) -> has_errors msgs = false -> st_wf_labels st.
Proof. exact accepted_labels_ok. Qed.
Print Assumptions C08_accepted_labels_ok.
