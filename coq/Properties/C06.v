(* C06 — assembled machine code and data image run exactly like the interpreted source.
   [exec]/[loop_step] are the interpreter model (Gen + Model/Run.v); [decode_word], [step],
   [word_of] are the hand-written specification (the independent word-level machine);
   [assemble] is Model/Bitvec.v over the regenerated BITV tables. *)
From Coq Require Import ZArith List String.
From Hera.Lib Require Import Py Machine Word16.
From Hera.Gen Require Import Ops.
From Hera.Spec Require Import ISA Wf EncTable.
From Hera.Model Require Import OpRep InstrOf Bitvec Run Listing.
From Hera.Proofs Require Import C02_Run C02_Init C05_Sweep C05_Codec C06_Decode C06_Sim C06_Image C06_Listing C06_ListingFull.
Import ListNotations.
Open Scope Z_scope.

(* the words `hera assemble` emits are those of the encoding table (C05), and the specification's
   decoder inverts the table *)
Theorem C06_decode_word_encode : forall i, valid_instr i = true -> decode_word (word_of i) = Some (canon i).
Proof. exact decode_word_encode. Qed.
Print Assumptions C06_decode_word_encode.
Theorem C06_decode_word_sound : forall w i, decode_word w = Some i -> valid_instr i = true /\ word_of i = w.
Proof. exact decode_word_sound. Qed.
Print Assumptions C06_decode_word_sound.

(* lock-step refinement: every iteration of the interpreter on the program's operations is a step
   the word-level machine takes on the assembled words (up to the diagnostic location tag and the
   points the definition leaves open), for any number of iterations by composition *)
Theorem C06_asm_refines : forall code instrs s s',
  Forall2 denotes code instrs -> zlen code <= 65535 -> wf_vm s ->
  loop_step code s = Ok (Some s') ->
  exists l, wstep_ok (map word_of instrs) (upd_location l s) s' /\ wf_vm s'.
Proof. exact asm_refines. Qed.
Print Assumptions C06_asm_refines.

Theorem C06_asm_ends : forall code instrs s,
  Forall2 denotes code instrs -> zlen code <= 65535 -> wf_vm s ->
  (loop_step code s = Ok None <->
   flag (halted s) = true \/ pc s < 0 \/ zlen (map word_of instrs) <= pc s).
Proof. exact asm_ends. Qed.
Print Assumptions C06_asm_ends.

(* data image: what the assembler emits for a data statement is what the interpreter writes *)
Theorem C06_assemble_data_cells : forall (o : op) (r : rop),
  r_op r = o_cls o -> r_args r = o_args o -> data_op_ok r -> zlen (cells_of r) <= 65536 ->
  exists b, assemble o = Ok (Some b) /\ bytes_to_cells b = cells_of r.
Proof. exact assemble_data_cells. Qed.
Print Assumptions C06_assemble_data_cells.

Theorem C06_exec_data_mem : forall o s, data_op_ok o -> wf_vm s -> 0 <= dc s -> dc s + data_size o <= 65536 ->
  mem_zero_from s (dc s) ->
  exists s', exec (r_op o) (r_args o) s = Ok (tt, s') /\ wf_vm s' /\ dc s' = dc s + data_size o /\
             (forall k, 0 <= k < data_size o -> mem_read (mem s') (dc s + k) = nth (Z.to_nat k) (cells_of o) 0) /\
             (forall a, 0 <= a < dc s -> mem_read (mem s') a = mem_read (mem s) a) /\
             mem_zero_from s' (dc s + data_size o).
Proof. exact exec_data_mem. Qed.
Print Assumptions C06_exec_data_mem.

(* the printed form (Model/Listing.v, tied to assemble_and_print character by character): a strict reader of the
   format gets back exactly the words that were printed, and decoding them gives back the instructions *)
Theorem C06_code_listing_reads_back : forall ws, ws <> [] -> Forall word ws ->
  read_code (code_listing ws) = Some ws.
Proof. exact read_code_listing. Qed.
Print Assumptions C06_code_listing_reads_back.

Theorem C06_listing_disassembles : forall instrs, instrs <> [] -> Forall (fun i => valid_instr i = true) instrs ->
  option_map (map decode_word) (read_code (code_listing (map word_of instrs))) =
  Some (map (fun i => Some (canon i)) instrs).
Proof. exact listing_disassembles. Qed.
Print Assumptions C06_listing_disassembles.

(* the Logisim data image: data_start-1 zero cells, the next free cell, then the data cells; so cell i of the
   data segment lies at address data_start + i, whatever the data start and the cells *)
Theorem C06_data_listing_reads_back : forall ds cells,
  1 <= ds -> ds + Z.of_nat (List.length cells) <= 65536 -> Forall word cells ->
  read_image (data_listing ds cells) = Some (image_of ds cells).
Proof. exact read_data_listing. Qed.
Print Assumptions C06_data_listing_reads_back.

Theorem C06_data_image_cells : forall ds cells, 1 <= ds ->
  (forall a, 0 <= a < ds - 1 -> cell_at (image_of ds cells) a = 0) /\
  cell_at (image_of ds cells) (ds - 1) = Z.of_nat (List.length cells) + ds /\
  (forall i, 0 <= i < Z.of_nat (List.length cells) -> cell_at (image_of ds cells) (ds + i) = nth (Z.to_nat i) cells 0).
Proof. exact image_cells. Qed.
Print Assumptions C06_data_image_cells.

(* the whole text of `hera assemble --stdout`: a reader that takes the lines between "[DATA]" and "[CODE]" as a
   Logisim image and the lines after "[CODE]" as one word each (two leading blanks removed) gets back the data image
   and the words *)
Theorem C06_full_listing_reads_back : forall ds cells ws,
  1 <= ds -> ds + Z.of_nat (List.length cells) <= 65536 -> Forall word cells -> ws <> [] -> Forall word ws ->
  read_full (full_listing ds cells ws) = Some (image_of ds cells, ws).
Proof. exact read_full_listing. Qed.
Print Assumptions C06_full_listing_reads_back.

Example C06_listing_example :
  data_listing 49153 [5; 0; 65535] =
    [52; 57; 49; 53; 50; 42; 48; 10; 99; 48; 48; 52; 10; 53; 10; 48; 10; 102; 102; 102; 102] /\
  read_image (data_listing 49153 [5; 0; 65535]) = Some [(49152, 0); (1, 49156); (1, 5); (1, 0); (1, 65535)] /\
  read_code (code_listing [0; 65535; 4779]) = Some [0; 65535; 4779].
Proof. vm_compute. repeat split. Qed.
