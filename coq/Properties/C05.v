(* C05 — instruction encoding and decoding are exact inverses and follow the HERA table.
   [assemble]/[disassemble] are Model/Bitvec.v over the BITV patterns, class order and override
   lists regenerated from hera/op.py (Gen/Tables.v); [word_of] is the hand-written HERA
   encoding table Spec/EncTable.v.  All statements are closed by complete enumeration in the
   kernel: 65536 words, all valid instruction instances. *)
From Coq Require Import ZArith List String.
From Hera.Lib Require Import Py Machine Word16.
From Hera.Gen Require Import Ops Tables.
From Hera.Spec Require Import ISA EncTable.
From Hera.Model Require Import OpRep InstrOf Bitvec.
From Hera.Proofs Require Import C05_Sweep C05_Codec.
Import ListNotations.
Open Scope Z_scope.

(* every valid real instruction assembles to the word the HERA table gives *)
Theorem C05_encode_table : forall i, valid_instr i = true ->
  assemble_word (op_of_instr i) = Some (word_of i).
Proof. exact encode_table. Qed.
Print Assumptions C05_encode_table.

(* disassembling the word of a valid instruction gives that instruction back (byte operands
   up to their 8-bit pattern) *)
Theorem C05_decode_encode : forall i, valid_instr i = true ->
  exists o, disassemble (word_of i) false = Ok o /\ instr_of_op o = Some (canon i).
Proof. exact decode_encode. Qed.
Print Assumptions C05_decode_encode.

(* two different instructions never share a word *)
Theorem C05_encode_injective : forall i j, valid_instr i = true -> valid_instr j = true ->
  word_of i = word_of j -> canon i = canon j.
Proof. exact encode_injective. Qed.
Print Assumptions C05_encode_injective.

(* every 16-bit word decodes to the one valid instruction that re-assembles to it, or is
   reported as not an instruction, in which case no valid instruction has that word *)
Theorem C05_decode_total : forall w, 0 <= w < 65536 ->
  (exists o i, disassemble w false = Ok o /\ instr_of_op o = Some i /\ valid_instr i = true
               /\ word_of i = w /\ assemble_word o = Some w)
  \/ ((exists m, disassemble w false = Raise (HERAError m))
      /\ forall i, valid_instr i = true -> word_of i <> w).
Proof. exact decode_total. Qed.
Print Assumptions C05_decode_total.

(* values outside 0..0xFFFF are rejected, not decoded *)
Theorem C05_decode_rejects : forall v allow, v < 0 \/ 65536 <= v ->
  exists m, disassemble v allow = Raise (HERAError m).
Proof. exact decode_rejects. Qed.
Print Assumptions C05_decode_rejects.

(* the generated tables have the shape the model assumes *)
Theorem C05_patterns_wf : forallb (fun o => pattern_wf (parse_pattern (BITV_of o))) all_opnames = true.
Proof. exact patterns_wf. Qed.
Print Assumptions C05_patterns_wf.
Theorem C05_overrides_as_modelled :
  assemble_definers = modelled_assemble_definers /\ disassemble_definers = modelled_disassemble_definers.
Proof. exact overrides_as_modelled. Qed.
Print Assumptions C05_overrides_as_modelled.
