(* C11 — running to completion in the debugger equals running in the interpreter.
   [exec] is regenerated from hera/op.py; [loop_step]/[iter] (the interpreter's loop) are
   Model/Run.v and [next_n]/[next_into]/[do_continue] (the debugger) Model/Debugger.v, tied to
   hera/vm.py and hera/debugger/*.py by the run and session correspondences.  Both sides start
   from the same machine (same settings: --big-stack, --init, --warn-return-off live in [cfg]);
   that the debugger really builds its machine from the settings is the session correspondence
   and the implementation-level oracle of the check. *)
From Coq Require Import ZArith List.
From Hera.Lib Require Import Py Machine.
From Hera.Spec Require Import ISA Wf.
From Hera.Model Require Import Run Debugger.
From Hera.Proofs Require Import C02_Run C11_Debug C11_Hyps.
Import ListNotations.
Open Scope Z_scope.

(* one source operation in the debugger = that many iterations of the interpreter's loop *)
Theorem C11_slice_runs : forall code, only_last_branches code ->
  forall t x d d',
  wf_vm (d_vm d) -> flag (halted (d_vm d)) = false -> 0 <= pc (d_vm d) ->
  skipn (Z.to_nat (pc (d_vm d))) code = x :: t ->
  exec_slice (x :: same_orig_prefix (dp_orig x) t) d = Ok d' ->
  run_k (rops code) (List.length (x :: same_orig_prefix (dp_orig x) t)) (d_vm d) (d_vm d') /\
  d_bps d' = d_bps d.
Proof. exact slice_runs. Qed.
Print Assumptions C11_slice_runs.

(* any mixture of next / next n / step / continue that reaches the end leaves exactly the
   interpreter's final machine: registers, flags, memory, pc, halt status, output, warnings *)
Theorem C11_debugger_equals_interpreter : forall code s0 fuel cs bps d',
  code_ok (rops code) -> only_last_branches code -> wf_vm s0 ->
  do_steps fuel code cs (mkd s0 bps 0) = Ok d' ->
  d_finished code d' = true ->
  exists n, iter (loop_step (rops code)) n s0 = Ok (d_vm d').
Proof. exact debugger_equals_interpreter. Qed.
Print Assumptions C11_debugger_equals_interpreter.

(* the structural hypothesis is decidable; the check evaluates it on every program it loads *)
Theorem C11_hypothesis_decidable : forall code, only_last_branches_b code = true -> only_last_branches code.
Proof. exact only_last_branches_b_ok. Qed.
Print Assumptions C11_hypothesis_decidable.
