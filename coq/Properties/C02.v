(* C02 — the machine always stays a well-formed 16-bit HERA machine.
   Property theorems only. [exec], [vm_reset], [run_guard] are regenerated from hera/op.py and
   hera/vm.py on every run; [run]/[iter]/[loop_step] are Model/Run.v (control skeleton checked
   against the source by the translator, behaviour by the correspondence harness). *)
From Coq Require Import ZArith List.
From Hera.Lib Require Import Py Machine Word16.
From Hera.Gen Require Import Vm Ops.
From Hera.Spec Require Import ISA Wf.
From Hera.Model Require Import InstrOf Run.
From Hera.Proofs Require Import C02_Step C02_Exec C02_Run C02_Init.
Import ListNotations.
Open Scope Z_scope.

(* every instruction the interpreter can meet — aliased CALL/RETURN and MUL in high-word mode
   included — maps well-formed states to well-formed states and does not raise *)
Theorem C02_step_wf : forall o args i s,
  wf_vm s -> pc_ok s -> instr_of o args = Some i -> valid_instr i = true -> runnable i = true ->
  exists s', exec o (map PI args) s = Ok (tt, s') /\ wf_vm s' /\ op_count s' = op_count s.
Proof. exact exec_wf. Qed.
Print Assumptions C02_step_wf.

(* reset() — whatever state the machine was in — gives a well-formed machine, for every --init
   list that names R1..R15 with 16-bit values *)
Theorem C02_reset_wf : forall s, init_ok (cfg s) ->
  exists s0, vm_reset s = Ok (tt, s0) /\ wf_vm s0 /\ pc s0 = 0 /\ dc s0 = data_start (cfg s)
             /\ cfg s0 = cfg s /\ halted s0 = PB false /\ op_count s0 = 0.
Proof. exact vm_reset_wf. Qed.
Print Assumptions C02_reset_wf.

(* every state at which the interpreter loop evaluates its guard is well-formed, for any
   number of iterations; the loop never raises *)
Theorem C02_visited_wf : forall code, code_ok code -> forall fuel s, wf_vm s ->
  Forall wf_vm (visited (loop_step code) fuel s) /\
  match iter (loop_step code) fuel s with
  | Ok s' => wf_vm s'
  | Raise OutOfFuel => True
  | Raise _ => False
  end.
Proof. exact iter_wf. Qed.
Print Assumptions C02_visited_wf.

Theorem C02_visited_wf_throttled : forall code n, code_ok code -> forall fuel s, wf_vm s ->
  Forall wf_vm (visited (loop_step_throttled n code) fuel s) /\
  match iter (loop_step_throttled n code) fuel s with
  | Ok s' => wf_vm s'
  | Raise OutOfFuel => True
  | Raise _ => False
  end.
Proof. exact iter_throttled_wf. Qed.
Print Assumptions C02_visited_wf_throttled.

(* no instruction is ever fetched from outside the program: a loop iteration that executes
   something does so at 0 <= pc < len(code) *)
Theorem C02_fetch_in_program : forall code s s', code_ok code -> wf_vm s ->
  loop_step code s = Ok (Some s') -> 0 <= pc s < zlen code.
Proof. exact fetch_in_program. Qed.
Print Assumptions C02_fetch_in_program.

(* VirtualMachine.run as a whole, from any prior state of the machine *)
Theorem C02_run_wf : forall p fuel s, program_ok p (cfg s) -> init_ok (cfg s) ->
  match run fuel p s with
  | Ok s' => wf_vm s'
  | Raise OutOfFuel => True
  | Raise _ => False
  end.
Proof. exact run_wf. Qed.
Print Assumptions C02_run_wf.

Theorem C02_savef_range : forall s d, wf_vm s -> reg_ix d -> d <> 0 ->
  0 <= getreg (step (I_SAVEF d) s) d <= 31.
Proof. exact savef_range. Qed.
Print Assumptions C02_savef_range.

Theorem C02_nonvacuous : program_ok demo_program demo_settings /\ init_ok demo_settings.
Proof. exact demo_program_ok. Qed.
Print Assumptions C02_nonvacuous.

(* ---- the debugger's state-changing commands (Model/Session.v, session correspondence) ------------------ *)
From Hera.Model Require Import Debugger MiniParser Session.
From Hera.Proofs Require Import C11_Debug C02_Debug.

Theorem C02_debugger_stepping_wf : forall code fuel,
  code_ok (rops code) -> only_last_branches code ->
  (forall n d d', wf_vm (d_vm d) -> next_n fuel code n d = Ok d' -> wf_vm (d_vm d')) /\
  (forall d d', wf_vm (d_vm d) -> Session.do_step code d = Ok d' -> wf_vm (d_vm d')) /\
  (forall d d', wf_vm (d_vm d) -> do_continue fuel code d = Ok d' -> wf_vm (d_vm d')).
Proof.
  intros code fuel C OL. split; [|split]; intros.
  - eapply next_n_wf; eassumption.
  - eapply step_wf; eassumption.
  - eapply continue_wf; eassumption.
Qed.
Print Assumptions C02_debugger_stepping_wf.

Theorem C02_debugger_writes_wf :
  (forall fs b d d', wf_vm (d_vm d) -> do_flags fs b d = Ok d' -> wf_vm (d_vm d')) /\
  (forall b d d', wf_vm (d_vm d) -> do_goto b d = Ok d' -> wf_vm (d_vm d')) /\
  (forall st a e d d', wf_vm (d_vm d) -> do_assign st (LMem a) e d = Ok d' -> wf_vm (d_vm d')) /\
  (forall st e d d', wf_vm (d_vm d) -> do_assign st LPc e d = Ok d' -> wf_vm (d_vm d')) /\
  (forall st i e d d' rhs, wf_vm (d_vm d) -> reg_ix i -> eval (d_vm d) st e = Some rhs -> word rhs ->
     do_assign st (LReg i) e d = Ok d' -> wf_vm (d_vm d')).
Proof.
  split; [|split; [|split; [|split]]]; intros.
  - eapply flags_wf; eassumption.
  - eapply goto_wf; eassumption.
  - eapply assign_mem_wf; eassumption.
  - eapply assign_pc_wf; eassumption.
  - eapply assign_reg_wf; eassumption.
Qed.
Print Assumptions C02_debugger_writes_wf.

Theorem C02_debugger_restart_wf : forall data d d', Forall data_op_ok data -> init_ok (cfg (d_vm d)) ->
  0 <= data_start (cfg (d_vm d)) -> data_start (cfg (d_vm d)) + data_total data <= 65536 ->
  do_restart data d = Ok d' -> wf_vm (d_vm d').
Proof. exact restart_wf. Qed.
Print Assumptions C02_debugger_restart_wf.

(* KNOWN FINDING D9: assigning a negative value to a register stores it unreduced; the full
   statement (every assignment keeps the machine well-formed) is false of the faithful model *)
Theorem C02_debugger_assign_negative_refuted :
  wf_vmb d9_state = true /\
  exists d', do_assign [] (LReg 12) d9_expr (mkd d9_state [] 0) = Ok d' /\
             getreg (d_vm d') 12 = -2748 /\ wf_vmb (d_vm d') = false.
Proof. exact assign_reg_negative_refuted. Qed.
Print Assumptions C02_debugger_assign_negative_refuted.
