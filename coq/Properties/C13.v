(* C13 — undo and restart restore state faithfully.
   Two layers: (1) object level — the tables regenerated from hera/vm.py, debugger.py and
   shell.py show that every mutable container reachable from a snapshot is duplicated and that
   exactly the state-changing handlers save first; (2) value level — on the immutable model
   (Model/Debugger.v, Model/Session.v) undo is the exact inverse of every state-changing command
   and restart yields the freshly-started machine. *)
From Coq Require Import ZArith List String.
From Hera.Lib Require Import Py Machine.
From Hera.Gen Require Import DebugTables.
From Hera.Model Require Import Run Debugger MiniParser Session.
From Hera.Proofs Require Import C13_Undo.
Import ListNotations.
Open Scope Z_scope.

Theorem C13_snapshots_are_independent :
  str_incl VM_CONTAINER_ATTRS VM_COPIED_ATTRS = true /\
  str_incl ["vm"; "breakpoints"]%string DEBUGGER_SAVE_COPIES = true /\
  str_incl DEBUGGER_MUTATED_ATTRS ["breakpoints"; "calls"]%string = true /\
  SHELL_MUTATING_HANDLERS =
    ["assign"; "break"; "clear"; "continue"; "execute"; "goto"; "next"; "off"; "on"; "restart"; "step"]%string /\
  str_in "undo" SHELL_MUTATING_HANDLERS = false.
Proof. exact snapshots_are_independent. Qed.
Print Assumptions C13_snapshots_are_independent.

(* after any state-changing command, undo gives back the whole previous session state: machine
   (registers, flags, memory, pc, halt status, call stack), breakpoints, step-over bookkeeping
   and the remaining history *)
Theorem C13_undo_restores : forall fuel code data st c s s1,
  c <> CUndo -> c <> CNop ->
  sess_step fuel code data st c s = Ok s1 ->
  sess_step fuel code data st CUndo s1 = Ok s.
Proof. exact session_undo. Qed.
Print Assumptions C13_undo_restores.

Theorem C13_undo_walks_back : forall fs s s', mutate_all fs s = Ok s' -> undo_n (List.length fs) s' = s.
Proof. exact undo_walks_back. Qed.
Print Assumptions C13_undo_walks_back.

Theorem C13_undo_nothing : forall d, undo (mksess d []) = mksess d [].
Proof. exact undo_nothing. Qed.
Print Assumptions C13_undo_nothing.

(* read-only commands change nothing at all *)
Theorem C13_readonly_changes_nothing : forall fuel code data st s, sess_step fuel code data st CNop s = Ok s.
Proof. reflexivity. Qed.
Print Assumptions C13_readonly_changes_nothing.

Theorem C13_restart_fresh : forall data d d' fresh,
  do_restart data d = Ok d' ->
  cfg fresh = cfg (d_vm d) -> out fresh = out (d_vm d) -> swarning_count fresh = swarning_count (d_vm d) ->
  d_init data fresh = Ok (d_vm d') /\ d_bps d' = d_bps d /\ d_calls d' = 0.
Proof. exact restart_fresh. Qed.
Print Assumptions C13_restart_fresh.
