(* Indep.v — nothing the interpreter executes reads or writes its instruction counter:
   every operation's execute (as regenerated from hera/op.py and hera/vm.py) commutes with setting
   op_count.  Proved by a logical relation over the state monad: every primitive of Lib/Machine.v
   except get_op_count / set_op_count is independent, and independence is closed under bind, if and
   the loops the translator emits. *)
From Coq Require Import ZArith List Bool String.
From Hera.Lib Require Import Py Machine.

Import ListNotations.
Open Scope Z_scope.
Open Scope m_scope.

Definition okrel (c : Z) {A} (x y : res (A * vm)) : Prop :=
  match x, y with
  | Ok (a, s), Ok (b, t) => a = b /\ t = upd_op_count c s
  | Raise e, Raise e' => e = e'
  | _, _ => False
  end.
Definition indep {A} (m : M A) : Prop := forall c s, okrel c (m s) (m (upd_op_count c s)).

Lemma indep_ret {A} (a : A) : indep (ret a).
Proof. intros c s. cbn. auto. Qed.
Lemma indep_raise {A} e : indep (@raise A e).
Proof. intros c s. reflexivity. Qed.
Lemma indep_lift {A} (r : res A) : indep (lift r).
Proof. intros c s. unfold lift. destruct r; cbn; auto. Qed.
Lemma indep_bind {A B} (m : M A) (k : A -> M B) : indep m -> (forall a, indep (k a)) -> indep (bind m k).
Proof.
  intros Hm Hk c s. unfold bind. specialize (Hm c s).
  destruct (m s) as [[a s1]|e], (m (upd_op_count c s)) as [[b t]|e']; cbn in Hm; try contradiction.
  - destruct Hm as [-> ->]. apply Hk.
  - subst. reflexivity.
Qed.

Ltac prim := intros c s;
  unfold get_pc, set_pc, get_dc, set_dc, get_warning_count, set_warning_count, get_swarning_count, set_swarning_count,
    get_input_pos, set_input_pos, get_input_buffer, set_input_buffer, get_f_s, set_f_s, get_f_z, set_f_z, get_f_v, set_f_v,
    get_f_c, set_f_c, get_f_cb, set_f_cb, get_halted, set_halted, get_warned_ovf, set_warned_ovf, get_location, set_location,
    get_warned_swi, set_warned_swi, get_warned_rti, set_warned_rti, get_data_start, get_warn_return_on, regs_getitem,
    regs_setitem, mem_len, mem_getitem, mem_setitem, mem_extend_zeros, ers_append, ers_nonempty, ers_pop, emit_out, emit_warn,
    emit_err, emit, need_int, raise;
  destruct s; cbn [regs pc dc f_s f_z f_v f_c f_cb mem halted ers op_count warned_ovf warned_swi warned_rti warning_count
                   swarning_count location input_buffer input_pos out cfg upd_op_count];
  cbv beta;
  repeat (match goal with
          | |- context [match ?x with _ => _ end] => destruct x
          end; cbv beta;
          cbn [regs pc dc f_s f_z f_v f_c f_cb mem halted ers op_count warned_ovf warned_swi warned_rti warning_count
               swarning_count location input_buffer input_pos out cfg upd_op_count]);
  cbn [okrel]; try reflexivity; try (split; reflexivity).

Lemma i_get_pc : indep get_pc.  Proof. prim. Qed.
Lemma i_set_pc v : indep (set_pc v).  Proof. prim. Qed.
Lemma i_get_dc : indep get_dc.  Proof. prim. Qed.
Lemma i_set_dc v : indep (set_dc v).  Proof. prim. Qed.
Lemma i_get_warning_count : indep get_warning_count.  Proof. prim. Qed.
Lemma i_set_warning_count v : indep (set_warning_count v).  Proof. prim. Qed.
Lemma i_get_swarning_count : indep get_swarning_count.  Proof. prim. Qed.
Lemma i_set_swarning_count v : indep (set_swarning_count v).  Proof. prim. Qed.
Lemma i_get_input_pos : indep get_input_pos.  Proof. prim. Qed.
Lemma i_set_input_pos v : indep (set_input_pos v).  Proof. prim. Qed.
Lemma i_get_input_buffer : indep get_input_buffer.  Proof. prim. Qed.
Lemma i_set_input_buffer v : indep (set_input_buffer v).  Proof. prim. Qed.
Lemma i_get_f_s : indep get_f_s.  Proof. prim. Qed.
Lemma i_set_f_s v : indep (set_f_s v).  Proof. prim. Qed.
Lemma i_get_f_z : indep get_f_z.  Proof. prim. Qed.
Lemma i_set_f_z v : indep (set_f_z v).  Proof. prim. Qed.
Lemma i_get_f_v : indep get_f_v.  Proof. prim. Qed.
Lemma i_set_f_v v : indep (set_f_v v).  Proof. prim. Qed.
Lemma i_get_f_c : indep get_f_c.  Proof. prim. Qed.
Lemma i_set_f_c v : indep (set_f_c v).  Proof. prim. Qed.
Lemma i_get_f_cb : indep get_f_cb.  Proof. prim. Qed.
Lemma i_set_f_cb v : indep (set_f_cb v).  Proof. prim. Qed.
Lemma i_get_halted : indep get_halted.  Proof. prim. Qed.
Lemma i_set_halted v : indep (set_halted v).  Proof. prim. Qed.
Lemma i_get_warned_ovf : indep get_warned_ovf.  Proof. prim. Qed.
Lemma i_set_warned_ovf v : indep (set_warned_ovf v).  Proof. prim. Qed.
Lemma i_get_location : indep get_location.  Proof. prim. Qed.
Lemma i_set_location v : indep (set_location v).  Proof. prim. Qed.
Lemma i_get_warned_swi : indep get_warned_swi.  Proof. prim. Qed.
Lemma i_set_warned_swi v : indep (set_warned_swi v).  Proof. prim. Qed.
Lemma i_get_warned_rti : indep get_warned_rti.  Proof. prim. Qed.
Lemma i_set_warned_rti v : indep (set_warned_rti v).  Proof. prim. Qed.
Lemma i_get_data_start : indep get_data_start.  Proof. prim. Qed.
Lemma i_get_warn_return_on : indep get_warn_return_on.  Proof. prim. Qed.
Lemma i_regs_getitem i : indep (regs_getitem i).  Proof. prim. Qed.
Lemma i_regs_setitem i v : indep (regs_setitem i v).  Proof. prim. Qed.
Lemma i_mem_len : indep mem_len.  Proof. prim. Qed.
Lemma i_mem_getitem i : indep (mem_getitem i).  Proof. prim. Qed.
Lemma i_mem_setitem i v : indep (mem_setitem i v).  Proof. prim. Qed.
Lemma i_mem_extend_zeros n : indep (mem_extend_zeros n).  Proof. prim. Qed.
Lemma i_ers_append a b : indep (ers_append a b).  Proof. prim. Qed.
Lemma i_ers_nonempty : indep ers_nonempty.  Proof. prim. Qed.
Lemma i_ers_pop : indep ers_pop.  Proof. prim. Qed.
Lemma i_emit_out f a n : indep (emit_out f a n).  Proof. prim. Qed.
Lemma i_emit_warn f a l : indep (emit_warn f a l).  Proof. prim. Qed.
Lemma i_emit_err f a l : indep (emit_err f a l).  Proof. prim. Qed.
Lemma i_args_at a i : indep (args_at a i).  Proof. apply indep_lift. Qed.
Lemma i_unpack2 a : indep (unpack2 a).
Proof. unfold unpack2. destruct a as [|x [|y [|z t]]]; first [apply indep_ret|apply indep_raise]. Qed.
Lemma i_unpack3 a : indep (unpack3 a).
Proof. unfold unpack3. destruct a as [|x [|y [|z [|w t]]]]; first [apply indep_ret|apply indep_raise]. Qed.
Lemma i_py_len v : indep (py_len v).
Proof. unfold py_len. destruct v; first [apply indep_ret|apply indep_raise]. Qed.
Lemma i_py_ord v : indep (py_ord v).
Proof. unfold py_ord. destruct v as [| | |[|c [|d t]]|]; first [apply indep_ret|apply indep_raise]. Qed.
Lemma i_str_chars v : indep (str_chars v).
Proof. unfold str_chars. destruct v; first [apply indep_ret|apply indep_raise]. Qed.
Lemma i_for_pairs l body : (forall a b, indep (body a b)) -> indep (for_pairs l body).
Proof. intros H. induction l as [|[a b] t IH]; cbn [for_pairs]; [apply indep_ret|]. apply indep_bind; [apply H|intros _; exact IH]. Qed.
Lemma i_for_chars l body : (forall a, indep (body a)) -> indep (for_chars l body).
Proof. intros H. induction l as [|a t IH]; cbn [for_chars]; [apply indep_ret|]. apply indep_bind; [apply H|intros _; exact IH]. Qed.

Create HintDb indep.
#[export] Hint Resolve indep_ret indep_raise indep_lift i_get_pc i_set_pc i_get_dc i_set_dc i_get_warning_count
  i_set_warning_count i_get_swarning_count i_set_swarning_count i_get_input_pos i_set_input_pos i_get_input_buffer
  i_set_input_buffer i_get_f_s i_set_f_s i_get_f_z i_set_f_z i_get_f_v i_set_f_v i_get_f_c i_set_f_c i_get_f_cb i_set_f_cb
  i_get_halted i_set_halted i_get_warned_ovf i_set_warned_ovf i_get_location i_set_location i_get_warned_swi i_set_warned_swi
  i_get_warned_rti i_set_warned_rti i_get_data_start i_get_warn_return_on i_regs_getitem i_regs_setitem i_mem_len
  i_mem_getitem i_mem_setitem i_mem_extend_zeros i_ers_append i_ers_nonempty i_ers_pop i_emit_out i_emit_warn i_emit_err
  i_args_at i_unpack2 i_unpack3 i_py_len i_py_ord i_str_chars : indep.

(* the shape of everything the translator emits *)
Ltac ind :=
  repeat first
    [ solve [auto with indep]
    | apply indep_bind; [ | intros ?]
    | apply i_for_pairs; intros ? ?
    | apply i_for_chars; intros ?
    | match goal with
      | |- indep (if ?b then _ else _) => destruct b
      | |- indep (match ?x with _ => _ end) => destruct x
      | |- indep (let _ := _ in _) => cbv zeta
      end ].
