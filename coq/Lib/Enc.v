(* Enc.v — a flat, canonical encoding of results and machine states as lists of integers,
   used only by the correspondence harness: [Eval vm_compute] prints these lists and the
   Python side decodes them.  No theorem depends on this file. *)
From Coq Require Import ZArith List Bool String Ascii.
From Hera.Lib Require Import Py Machine.
Import ListNotations.
Open Scope Z_scope.

Definition enc_string (s : string) : list Z :=
  let cs := map (fun a => Z.of_nat (nat_of_ascii a)) (list_ascii_of_string s) in
  zlen cs :: cs.

Definition enc_pv (v : pv) : list Z :=
  match v with
  | PNone => [0]
  | PB b => [1; Z.b2z b]
  | PI z => [2; z]
  | PS s => 3 :: zlen s :: s
  | PF z => [4; z]
  end.

Definition enc_list {A} (f : A -> list Z) (l : list A) : list Z :=
  zlen l :: List.concat (map f l).

Definition enc_exn (e : exn) : list Z :=
  match e with
  | IndexError => [1] | ValueError => [2] | KeyError => [3] | TypeError => [4]
  | AttributeError => [5] | HERAError m => 6 :: enc_string m | NotImplementedError => [7]
  | RuntimeError => [8] | SystemExit c => [9; c] | OutOfFuel => [10]
  | ModelError m => 11 :: enc_string m
  end.

Definition enc_event (e : event) : list Z :=
  match e with
  | EOut f a nl => 1 :: enc_string f ++ enc_list enc_pv a ++ [Z.b2z nl]
  | EWarn f a l => 2 :: enc_string f ++ enc_list enc_pv a ++ enc_pv l
  | EErr f a l => 3 :: enc_string f ++ enc_list enc_pv a ++ enc_pv l
  end.

Definition enc_pair (p : Z * Z) : list Z := [fst p; snd p].

Definition enc_vm (s : vm) : list Z :=
  enc_list (fun z => [z]) (regs s) ++ [pc s; dc s]
  ++ enc_pv (f_s s) ++ enc_pv (f_z s) ++ enc_pv (f_v s) ++ enc_pv (f_c s) ++ enc_pv (f_cb s)
  ++ [mlen (mem s)] ++ enc_list enc_pair (cells (mem s))
  ++ enc_pv (halted s) ++ enc_list enc_pair (ers s) ++ [op_count s]
  ++ enc_pv (warned_ovf s) ++ enc_pv (warned_swi s) ++ enc_pv (warned_rti s)
  ++ [warning_count s; swarning_count s] ++ enc_pv (location s)
  ++ enc_list (fun z => [z]) (input_buffer s) ++ [input_pos s]
  ++ enc_list enc_event (rev (out s)).

Definition enc_res {A} (f : A -> list Z) (r : res A) : list Z :=
  match r with
  | Ok a => 0 :: f a
  | Raise e => 1 :: enc_exn e
  end.

Definition enc_unit_vm (r : res (unit * vm)) : list Z := enc_res (fun p => enc_vm (snd p)) r.
Definition enc_pv_vm (r : res (pv * vm)) : list Z :=
  enc_res (fun p => enc_pv (fst p) ++ enc_vm (snd p)) r.
