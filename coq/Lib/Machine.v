(* Machine.v — the state of hera.vm.VirtualMachine as a record, the state/exception monad
   the generated code lives in, and the primitive attribute / container operations the
   translator maps Python attribute access and list operations to.  Hand-written; trusted
   base; validated every run by the differential harness. *)
From Coq Require Import ZArith List Bool String.
From Hera.Lib Require Import Py.
Import ListNotations.
Open Scope Z_scope.

(* hera.data.Settings — the fields the machine reads *)
Record settings := mksettings {
  data_start : Z;
  warn_return_on : bool;
  init : list (Z * Z);
  throttle : option Z;          (* False -> None *)
}.

(* vm.memory: a Python list of ints.  Represented by its length and an association list
   (newest binding first) of the cells that have been assigned; unassigned cells are 0. *)
Record pmem := mkmem { mlen : Z; cells : list (Z * Z) }.

Fixpoint cells_get (c : list (Z * Z)) (a : Z) : Z :=
  match c with
  | [] => 0
  | (k, v) :: t => if k =? a then v else cells_get t a
  end.

(* the value an in-range address holds; what vm.load_memory observes *)
Definition mem_read (m : pmem) (a : Z) : Z :=
  if a <? mlen m then cells_get (cells m) a else 0.
(* the canonical effect of writing cell a (0 <= a): list grows to a+1 if shorter *)
Definition mem_write (m : pmem) (a v : Z) : pmem :=
  mkmem (Z.max (mlen m) (a + 1)) ((a, v) :: cells m).

Inductive event :=
| EOut (fmt : string) (args : list pv) (newline : bool)   (* print(fmt.format(args)) on stdout *)
| EWarn (fmt : string) (args : list pv) (loc : pv)          (* print_warning(...) on stderr *)
| EErr (fmt : string) (args : list pv) (loc : pv).

Record vm := mkvm {
  regs : list Z;
  pc : Z;
  dc : Z;
  f_s : pv; f_z : pv; f_v : pv; f_c : pv; f_cb : pv;
  mem : pmem;
  halted : pv;
  ers : list (Z * Z);           (* expected_returns, oldest first *)
  op_count : Z;
  warned_ovf : pv;
  warned_swi : pv;
  warned_rti : pv;
  warning_count : Z;             (* vm.warning_count *)
  swarning_count : Z;            (* vm.settings.warning_count *)
  location : pv;                 (* PI id of op.loc, or PNone *)
  input_buffer : list Z;
  input_pos : Z;
  out : list event;              (* newest first *)
  cfg : settings;
}.

Definition M (A : Type) := vm -> res (A * vm).
Definition ret {A} (a : A) : M A := fun s => Ok (a, s).
Definition bind {A B} (c : M A) (k : A -> M B) : M B :=
  fun s => match c s with Ok (a, s') => k a s' | Raise e => Raise e end.
Definition raise {A} (e : exn) : M A := fun _ => Raise e.
Definition lift {A} (r : res A) : M A :=
  fun s => match r with Ok a => Ok (a, s) | Raise e => Raise e end.

Declare Scope m_scope.
Delimit Scope m_scope with M.
Notation "x <- c ;; k" := (bind c (fun x => k))
  (at level 61, c at next level, right associativity) : m_scope.
Notation "' p <- c ;; k" := (bind c (fun p => k))
  (at level 61, p pattern, c at next level, right associativity) : m_scope.
Notation "c ;;; k" := (bind c (fun _ => k))
  (at level 61, right associativity) : m_scope.
Open Scope m_scope.

Definition need_int {A} (what : string) (v : pv) (k : Z -> M A) : M A :=
  match v with PI z => k z | _ => raise (ModelError what) end.

(* --- attribute setters: one per vm attribute ------------------------------------- *)
Definition upd_regs x (s : vm) := mkvm x (pc s) (dc s) (f_s s) (f_z s) (f_v s) (f_c s) (f_cb s) (mem s) (halted s) (ers s) (op_count s) (warned_ovf s) (warned_swi s) (warned_rti s) (warning_count s) (swarning_count s) (location s) (input_buffer s) (input_pos s) (out s) (cfg s).
Definition upd_pc x (s : vm) := mkvm (regs s) x (dc s) (f_s s) (f_z s) (f_v s) (f_c s) (f_cb s) (mem s) (halted s) (ers s) (op_count s) (warned_ovf s) (warned_swi s) (warned_rti s) (warning_count s) (swarning_count s) (location s) (input_buffer s) (input_pos s) (out s) (cfg s).
Definition upd_dc x (s : vm) := mkvm (regs s) (pc s) x (f_s s) (f_z s) (f_v s) (f_c s) (f_cb s) (mem s) (halted s) (ers s) (op_count s) (warned_ovf s) (warned_swi s) (warned_rti s) (warning_count s) (swarning_count s) (location s) (input_buffer s) (input_pos s) (out s) (cfg s).
Definition upd_f_s x (s : vm) := mkvm (regs s) (pc s) (dc s) x (f_z s) (f_v s) (f_c s) (f_cb s) (mem s) (halted s) (ers s) (op_count s) (warned_ovf s) (warned_swi s) (warned_rti s) (warning_count s) (swarning_count s) (location s) (input_buffer s) (input_pos s) (out s) (cfg s).
Definition upd_f_z x (s : vm) := mkvm (regs s) (pc s) (dc s) (f_s s) x (f_v s) (f_c s) (f_cb s) (mem s) (halted s) (ers s) (op_count s) (warned_ovf s) (warned_swi s) (warned_rti s) (warning_count s) (swarning_count s) (location s) (input_buffer s) (input_pos s) (out s) (cfg s).
Definition upd_f_v x (s : vm) := mkvm (regs s) (pc s) (dc s) (f_s s) (f_z s) x (f_c s) (f_cb s) (mem s) (halted s) (ers s) (op_count s) (warned_ovf s) (warned_swi s) (warned_rti s) (warning_count s) (swarning_count s) (location s) (input_buffer s) (input_pos s) (out s) (cfg s).
Definition upd_f_c x (s : vm) := mkvm (regs s) (pc s) (dc s) (f_s s) (f_z s) (f_v s) x (f_cb s) (mem s) (halted s) (ers s) (op_count s) (warned_ovf s) (warned_swi s) (warned_rti s) (warning_count s) (swarning_count s) (location s) (input_buffer s) (input_pos s) (out s) (cfg s).
Definition upd_f_cb x (s : vm) := mkvm (regs s) (pc s) (dc s) (f_s s) (f_z s) (f_v s) (f_c s) x (mem s) (halted s) (ers s) (op_count s) (warned_ovf s) (warned_swi s) (warned_rti s) (warning_count s) (swarning_count s) (location s) (input_buffer s) (input_pos s) (out s) (cfg s).
Definition upd_mem x (s : vm) := mkvm (regs s) (pc s) (dc s) (f_s s) (f_z s) (f_v s) (f_c s) (f_cb s) x (halted s) (ers s) (op_count s) (warned_ovf s) (warned_swi s) (warned_rti s) (warning_count s) (swarning_count s) (location s) (input_buffer s) (input_pos s) (out s) (cfg s).
Definition upd_halted x (s : vm) := mkvm (regs s) (pc s) (dc s) (f_s s) (f_z s) (f_v s) (f_c s) (f_cb s) (mem s) x (ers s) (op_count s) (warned_ovf s) (warned_swi s) (warned_rti s) (warning_count s) (swarning_count s) (location s) (input_buffer s) (input_pos s) (out s) (cfg s).
Definition upd_ers x (s : vm) := mkvm (regs s) (pc s) (dc s) (f_s s) (f_z s) (f_v s) (f_c s) (f_cb s) (mem s) (halted s) x (op_count s) (warned_ovf s) (warned_swi s) (warned_rti s) (warning_count s) (swarning_count s) (location s) (input_buffer s) (input_pos s) (out s) (cfg s).
Definition upd_op_count x (s : vm) := mkvm (regs s) (pc s) (dc s) (f_s s) (f_z s) (f_v s) (f_c s) (f_cb s) (mem s) (halted s) (ers s) x (warned_ovf s) (warned_swi s) (warned_rti s) (warning_count s) (swarning_count s) (location s) (input_buffer s) (input_pos s) (out s) (cfg s).
Definition upd_warned_ovf x (s : vm) := mkvm (regs s) (pc s) (dc s) (f_s s) (f_z s) (f_v s) (f_c s) (f_cb s) (mem s) (halted s) (ers s) (op_count s) x (warned_swi s) (warned_rti s) (warning_count s) (swarning_count s) (location s) (input_buffer s) (input_pos s) (out s) (cfg s).
Definition upd_warned_swi x (s : vm) := mkvm (regs s) (pc s) (dc s) (f_s s) (f_z s) (f_v s) (f_c s) (f_cb s) (mem s) (halted s) (ers s) (op_count s) (warned_ovf s) x (warned_rti s) (warning_count s) (swarning_count s) (location s) (input_buffer s) (input_pos s) (out s) (cfg s).
Definition upd_warned_rti x (s : vm) := mkvm (regs s) (pc s) (dc s) (f_s s) (f_z s) (f_v s) (f_c s) (f_cb s) (mem s) (halted s) (ers s) (op_count s) (warned_ovf s) (warned_swi s) x (warning_count s) (swarning_count s) (location s) (input_buffer s) (input_pos s) (out s) (cfg s).
Definition upd_warning_count x (s : vm) := mkvm (regs s) (pc s) (dc s) (f_s s) (f_z s) (f_v s) (f_c s) (f_cb s) (mem s) (halted s) (ers s) (op_count s) (warned_ovf s) (warned_swi s) (warned_rti s) x (swarning_count s) (location s) (input_buffer s) (input_pos s) (out s) (cfg s).
Definition upd_swarning_count x (s : vm) := mkvm (regs s) (pc s) (dc s) (f_s s) (f_z s) (f_v s) (f_c s) (f_cb s) (mem s) (halted s) (ers s) (op_count s) (warned_ovf s) (warned_swi s) (warned_rti s) (warning_count s) x (location s) (input_buffer s) (input_pos s) (out s) (cfg s).
Definition upd_location x (s : vm) := mkvm (regs s) (pc s) (dc s) (f_s s) (f_z s) (f_v s) (f_c s) (f_cb s) (mem s) (halted s) (ers s) (op_count s) (warned_ovf s) (warned_swi s) (warned_rti s) (warning_count s) (swarning_count s) x (input_buffer s) (input_pos s) (out s) (cfg s).
Definition upd_input_buffer x (s : vm) := mkvm (regs s) (pc s) (dc s) (f_s s) (f_z s) (f_v s) (f_c s) (f_cb s) (mem s) (halted s) (ers s) (op_count s) (warned_ovf s) (warned_swi s) (warned_rti s) (warning_count s) (swarning_count s) (location s) x (input_pos s) (out s) (cfg s).
Definition upd_input_pos x (s : vm) := mkvm (regs s) (pc s) (dc s) (f_s s) (f_z s) (f_v s) (f_c s) (f_cb s) (mem s) (halted s) (ers s) (op_count s) (warned_ovf s) (warned_swi s) (warned_rti s) (warning_count s) (swarning_count s) (location s) (input_buffer s) x (out s) (cfg s).
Definition upd_out x (s : vm) := mkvm (regs s) (pc s) (dc s) (f_s s) (f_z s) (f_v s) (f_c s) (f_cb s) (mem s) (halted s) (ers s) (op_count s) (warned_ovf s) (warned_swi s) (warned_rti s) (warning_count s) (swarning_count s) (location s) (input_buffer s) (input_pos s) x (cfg s).

(* --- monadic attribute access, as the translator emits it ------------------------- *)
Definition get_pc : M pv := fun s => Ok (PI (pc s), s).
Definition set_pc (v : pv) : M unit := need_int "pc" v (fun z s => Ok (tt, upd_pc z s)).
Definition get_dc : M pv := fun s => Ok (PI (dc s), s).
Definition set_dc (v : pv) : M unit := need_int "dc" v (fun z s => Ok (tt, upd_dc z s)).
Definition get_op_count : M pv := fun s => Ok (PI (op_count s), s).
Definition set_op_count (v : pv) : M unit := need_int "op_count" v (fun z s => Ok (tt, upd_op_count z s)).
Definition get_warning_count : M pv := fun s => Ok (PI (warning_count s), s).
Definition set_warning_count (v : pv) : M unit := need_int "warning_count" v (fun z s => Ok (tt, upd_warning_count z s)).
Definition get_swarning_count : M pv := fun s => Ok (PI (swarning_count s), s).
Definition set_swarning_count (v : pv) : M unit := need_int "settings.warning_count" v (fun z s => Ok (tt, upd_swarning_count z s)).
Definition get_input_pos : M pv := fun s => Ok (PI (input_pos s), s).
Definition set_input_pos (v : pv) : M unit := need_int "input_pos" v (fun z s => Ok (tt, upd_input_pos z s)).
Definition get_input_buffer : M pv := fun s => Ok (PS (input_buffer s), s).
Definition set_input_buffer (v : pv) : M unit :=
  match v with PS x => fun s => Ok (tt, upd_input_buffer x s) | _ => raise (ModelError "input_buffer") end.

Definition get_f_s : M pv := fun s => Ok (f_s s, s).
Definition set_f_s (v : pv) : M unit := fun s => Ok (tt, upd_f_s v s).
Definition get_f_z : M pv := fun s => Ok (f_z s, s).
Definition set_f_z (v : pv) : M unit := fun s => Ok (tt, upd_f_z v s).
Definition get_f_v : M pv := fun s => Ok (f_v s, s).
Definition set_f_v (v : pv) : M unit := fun s => Ok (tt, upd_f_v v s).
Definition get_f_c : M pv := fun s => Ok (f_c s, s).
Definition set_f_c (v : pv) : M unit := fun s => Ok (tt, upd_f_c v s).
Definition get_f_cb : M pv := fun s => Ok (f_cb s, s).
Definition set_f_cb (v : pv) : M unit := fun s => Ok (tt, upd_f_cb v s).
Definition get_halted : M pv := fun s => Ok (halted s, s).
Definition set_halted (v : pv) : M unit := fun s => Ok (tt, upd_halted v s).
Definition get_warned_ovf : M pv := fun s => Ok (warned_ovf s, s).
Definition set_warned_ovf (v : pv) : M unit := fun s => Ok (tt, upd_warned_ovf v s).
Definition get_location : M pv := fun s => Ok (location s, s).
Definition set_location (v : pv) : M unit := fun s => Ok (tt, upd_location v s).
Definition get_warned_swi : M pv := fun s => Ok (warned_swi s, s).
Definition set_warned_swi (v : pv) : M unit := fun s => Ok (tt, upd_warned_swi v s).
Definition get_warned_rti : M pv := fun s => Ok (warned_rti s, s).
Definition set_warned_rti (v : pv) : M unit := fun s => Ok (tt, upd_warned_rti v s).

(* settings reads *)
Definition get_data_start : M pv := fun s => Ok (PI (data_start (cfg s)), s).
Definition get_warn_return_on : M pv := fun s => Ok (PB (warn_return_on (cfg s)), s).

(* vm.registers[i] / vm.registers[i] = v *)
Definition regs_getitem (i : pv) : M pv :=
  fun s => match py_getitem 0 (regs s) i with Ok z => Ok (PI z, s) | Raise e => Raise e end.
Definition regs_setitem (i v : pv) : M unit :=
  need_int "register value" v (fun z s =>
    match py_setitem (regs s) i z with Ok r => Ok (tt, upd_regs r s) | Raise e => Raise e end).

(* vm.memory: len(), [a], [a] = v, .extend([0] * n) *)
Definition mem_len : M pv := fun s => Ok (PI (mlen (mem s)), s).
Definition mem_getitem (i : pv) : M pv :=
  fun s => match i with
           | PI _ | PB _ =>
               match norm_index (mlen (mem s)) (as_int i) with
               | Some k => Ok (PI (cells_get (cells (mem s)) k), s)
               | None => Raise IndexError
               end
           | _ => Raise TypeError
           end.
Definition mem_setitem (i v : pv) : M unit :=
  need_int "memory value" v (fun z s =>
    match i with
    | PI _ | PB _ =>
        match norm_index (mlen (mem s)) (as_int i) with
        | Some k => Ok (tt, upd_mem (mkmem (mlen (mem s)) ((k, z) :: cells (mem s))) s)
        | None => Raise IndexError
        end
    | _ => Raise TypeError
    end).
(* self.memory.extend([0] * n): [0] * n is [] for n <= 0 *)
Definition mem_extend_zeros (n : pv) : M unit :=
  need_int "extend count" n (fun z s =>
    Ok (tt, upd_mem (mkmem (mlen (mem s) + Z.max z 0) (cells (mem s))) s)).

(* whole-container assignments used by reset() *)
Definition set_regs_zeros (n : pv) : M unit :=
  need_int "register count" n (fun z s => Ok (tt, upd_regs (repeat 0 (Z.to_nat z)) s)).
Definition set_mem_zeros (n : pv) : M unit :=
  need_int "memory size" n (fun z s => Ok (tt, upd_mem (mkmem (Z.max z 0) []) s)).
Definition set_ers_empty : M unit := fun s => Ok (tt, upd_ers [] s).
Definition get_init : M (list (Z * Z)) := fun s => Ok (init (cfg s), s).

(* vm.expected_returns *)
Definition ers_append (a b : pv) : M unit :=
  need_int "call address" a (fun x => need_int "return address" b (fun y s =>
    Ok (tt, upd_ers (ers s ++ [(x, y)]) s))).
Definition ers_nonempty : M pv :=
  fun s => Ok (PB (match ers s with [] => false | _ => true end), s).
(* .pop() returns the last pair; the translator only uses it as `_, x = ....pop()` *)
Definition ers_pop : M (pv * pv) :=
  fun s => match rev (ers s) with
           | [] => Raise IndexError
           | (a, b) :: t => Ok ((PI a, PI b), upd_ers (rev t) s)
           end.

(* output *)
Definition emit (e : event) : M unit := fun s => Ok (tt, upd_out (e :: out s) s).
Definition emit_out (fmt : string) (args : list pv) (nl : bool) : M unit := emit (EOut fmt args nl).
Definition emit_warn (fmt : string) (args : list pv) (loc : pv) : M unit := emit (EWarn fmt args loc).
Definition emit_err (fmt : string) (args : list pv) (loc : pv) : M unit := emit (EErr fmt args loc).

(* self.args[i], `a, b = self.args` *)
Definition args_at (args : list pv) (i : Z) : M pv := lift (py_getitem PNone args (PI i)).
Definition unpack2 (args : list pv) : M (pv * pv) :=
  match args with [a; b] => ret (a, b) | _ => raise ValueError end.
Definition unpack3 (args : list pv) : M (pv * pv * pv) :=
  match args with [a; b; c] => ret (a, b, c) | _ => raise ValueError end.

(* for (a, b) in pairs: body *)
Fixpoint for_pairs (l : list (Z * Z)) (body : pv -> pv -> M unit) : M unit :=
  match l with
  | [] => ret tt
  | (a, b) :: t => body (PI a) (PI b) ;;; for_pairs t body
  end.
(* for c in <str>: body *)
Fixpoint for_chars (l : list Z) (body : pv -> M unit) : M unit :=
  match l with
  | [] => ret tt
  | c :: t => body (PS [c]) ;;; for_chars t body
  end.
Definition py_len (v : pv) : M pv :=
  match v with PS s => ret (PI (zlen s)) | _ => raise TypeError end.
Definition py_ord (v : pv) : M pv :=
  match v with PS [c] => ret (PI c) | _ => raise TypeError end.
Definition str_chars (v : pv) : M (list Z) :=
  match v with PS s => ret s | _ => raise TypeError end.

(* --- proof support: normalising monadic terms on explicit states -------------------- *)
Ltac msimpl :=
  cbv beta iota zeta delta
    [bind ret raise lift need_int
     regs pc dc f_s f_z f_v f_c f_cb mem halted ers op_count warned_ovf warned_swi warned_rti
     warning_count swarning_count location input_buffer input_pos out cfg
     upd_regs upd_pc upd_dc upd_f_s upd_f_z upd_f_v upd_f_c upd_f_cb upd_mem upd_halted upd_ers
     upd_op_count upd_warned_ovf upd_warned_swi upd_warned_rti upd_warning_count
     upd_swarning_count upd_location upd_input_buffer upd_input_pos upd_out
     get_pc set_pc get_dc set_dc get_op_count set_op_count get_warning_count set_warning_count
     get_swarning_count set_swarning_count get_input_pos set_input_pos get_input_buffer
     set_input_buffer get_f_s set_f_s get_f_z set_f_z get_f_v set_f_v get_f_c set_f_c
     get_f_cb set_f_cb get_halted set_halted get_warned_ovf set_warned_ovf get_location
     set_location get_warned_swi set_warned_swi get_warned_rti set_warned_rti
     get_data_start get_warn_return_on get_init mem_len
     emit emit_out emit_warn emit_err ers_nonempty set_ers_empty
     data_start warn_return_on init throttle mlen cells
     py_add py_sub py_mul py_neg py_floordiv py_mod py_shl py_shr py_band py_bor py_bxor
     py_lt py_le py_gt py_ge py_eq py_ne py_eqb py_not py_and py_or py_bool py_int py_ifexp
     as_int truthy].

Ltac proj_simpl :=
  cbn [regs pc dc f_s f_z f_v f_c f_cb mem halted ers op_count warned_ovf warned_swi warned_rti
       warning_count swarning_count location input_buffer input_pos out cfg
       data_start warn_return_on init throttle mlen cells].
