(* Word16.v — arithmetic facts about 16-bit words, masks and shifts, and the
   "finite range by computation" principle used for unary bit-level facts. *)
From Coq Require Import ZArith List Bool Lia.
Import ListNotations.
Open Scope Z_scope.

Definition word (v : Z) : Prop := 0 <= v < 65536.
Definition wordb (v : Z) : bool := (0 <=? v) && (v <? 65536).

Lemma wordb_spec v : wordb v = true <-> word v.
Proof. unfold wordb, word. rewrite andb_true_iff, Z.leb_le, Z.ltb_lt. tauto. Qed.

(* ---- ranges --------------------------------------------------------------------- *)
Fixpoint zrange_nat (lo : Z) (n : nat) : list Z :=
  match n with O => [] | S k => lo :: zrange_nat (lo + 1) k end.
Definition zrange (lo hi : Z) : list Z := zrange_nat lo (Z.to_nat (hi - lo)).

Lemma in_zrange_nat n : forall lo v, lo <= v < lo + Z.of_nat n -> In v (zrange_nat lo n).
Proof.
  induction n as [|n IH]; intros lo v H; simpl.
  - lia.
  - destruct (Z.eq_dec lo v) as [->|Hne]; [now left|right].
    apply IH. lia.
Qed.

Lemma in_zrange lo hi v : lo <= v < hi -> In v (zrange lo hi).
Proof. intros H. unfold zrange. apply in_zrange_nat. lia. Qed.

(* a boolean predicate checked on every element of a finite range holds on the range *)
Lemma range_forall (P : Z -> bool) lo hi :
  forallb P (zrange lo hi) = true -> forall v, lo <= v < hi -> P v = true.
Proof.
  intros H v Hv. rewrite forallb_forall in H. apply H. now apply in_zrange.
Qed.

(* ---- masks and shifts ------------------------------------------------------------ *)
Lemma land_65535 x : Z.land x 65535 = x mod 65536.
Proof. change 65535 with (Z.ones 16). now rewrite Z.land_ones by lia. Qed.
Lemma land_255 x : Z.land x 255 = x mod 256.
Proof. change 255 with (Z.ones 8). now rewrite Z.land_ones by lia. Qed.
Lemma land_1 x : Z.land x 1 = x mod 2.
Proof. change 1 with (Z.ones 1). now rewrite Z.land_ones by lia. Qed.
Lemma shiftl_mul x k : 0 <= k -> Z.shiftl x k = x * 2 ^ k.
Proof. intros. now rewrite Z.shiftl_mul_pow2. Qed.
Lemma shiftr_div x k : 0 <= k -> Z.shiftr x k = x / 2 ^ k.
Proof. intros. now rewrite Z.shiftr_div_pow2. Qed.

(* signed reading of a 16-bit word *)
Definition sgn16 (x : Z) : Z := if x <? 32768 then x else x - 65536.

(* bit k of a non-negative number *)
Definition bit (v k : Z) : bool := (v / 2 ^ k) mod 2 =? 1.

(* Unary facts on 16-bit words proved by running over all 65536 of them in the kernel. *)
Lemma land_32768_word : forall v, word v -> (Z.land v 32768 =? 0) = (v <? 32768).
Proof.
  intros v Hv.
  assert (H := range_forall (fun w => Bool.eqb (Z.land w 32768 =? 0) (w <? 32768)) 0 65536).
  cbv beta in H. apply Bool.eqb_prop. apply H; [vm_compute; reflexivity | exact Hv].
Qed.
Lemma land_16384_word : forall v, word v -> (Z.land v 16384 =? 0) = negb (bit v 14).
Proof.
  intros v Hv.
  assert (H := range_forall (fun w => Bool.eqb (Z.land w 16384 =? 0) (negb (bit w 14))) 0 65536).
  cbv beta in H. apply Bool.eqb_prop. apply H; [vm_compute; reflexivity | exact Hv].
Qed.
Lemma land_pow2_word : forall k, 0 <= k < 16 -> forall v, word v ->
  (Z.land v (2 ^ k) =? 0) = negb (bit v k).
Proof.
  intros k Hk v Hv.
  assert (H := range_forall (fun j => forallb (fun w => Bool.eqb (Z.land w (2 ^ j) =? 0) (negb (bit w j))) (zrange 0 65536)) 0 16).
  cbv beta in H.
  assert (H1 : forallb (fun w => Bool.eqb (Z.land w (2 ^ k) =? 0) (negb (bit w k))) (zrange 0 65536) = true).
  { apply H; [vm_compute; reflexivity | exact Hk]. }
  apply Bool.eqb_prop. rewrite forallb_forall in H1. apply H1. now apply in_zrange.
Qed.
Lemma asr_lor_word : forall v, word v -> Z.lor (Z.shiftr v 1) 32768 = v / 2 + 32768.
Proof.
  intros v Hv.
  assert (H := range_forall (fun w => Z.lor (Z.shiftr w 1) 32768 =? w / 2 + 32768) 0 65536).
  cbv beta in H. apply Z.eqb_eq. apply H; [vm_compute; reflexivity | exact Hv].
Qed.

(* ---- bitwise operations stay within 16 bits -------------------------------------- *)
Lemma word_mod x : word x <-> x mod 65536 = x.
Proof. unfold word. split; intros H; [apply Z.mod_small; lia | rewrite <- H; apply Z.mod_pos_bound; lia]. Qed.

Lemma land_word x y : word x -> word y -> word (Z.land x y).
Proof.
  intros Hx Hy. apply word_mod. rewrite <- land_65535.
  rewrite <- Z.land_assoc, (land_65535 y). apply word_mod in Hy. now rewrite Hy.
Qed.

Lemma lor_word x y : word x -> word y -> word (Z.lor x y).
Proof.
  intros Hx Hy. apply word_mod. rewrite <- land_65535.
  rewrite Z.land_lor_distr_l, !land_65535.
  apply word_mod in Hx, Hy. now rewrite Hx, Hy.
Qed.

Lemma lt_pow2_log2 a n : 0 < n -> 0 <= a -> (a < 2 ^ n <-> a = 0 \/ Z.log2 a < n).
Proof.
  intros Hn Ha. destruct (Z.eq_dec a 0) as [->|Hne].
  - split; [now left|]. intros _. apply Z.pow_pos_nonneg; lia.
  - rewrite <- Z.log2_lt_pow2 by lia. split; [now right|]. intros [?|?]; [lia|assumption].
Qed.

Lemma lxor_word x y : word x -> word y -> word (Z.lxor x y).
Proof.
  unfold word. intros Hx Hy.
  assert (H0 : 0 <= Z.lxor x y) by (apply Z.lxor_nonneg; lia).
  split; [exact H0|]. change 65536 with (2 ^ 16).
  apply lt_pow2_log2; [lia|exact H0|].
  destruct (Z.eq_dec (Z.lxor x y) 0) as [?|Hne]; [now left|right].
  eapply Z.le_lt_trans; [apply Z.log2_lxor; lia|].
  assert (Hlx : x = 0 \/ Z.log2 x < 16) by (apply lt_pow2_log2; lia).
  assert (Hly : y = 0 \/ Z.log2 y < 16) by (apply lt_pow2_log2; lia).
  destruct Hlx as [->|?], Hly as [->|?]; cbn [Z.log2]; lia.
Qed.
