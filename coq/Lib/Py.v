(* Py.v — the fragment of Python's value semantics that hera-py's machine code relies on.
   Hand-written, part of the trusted base (DESIGN.md §7); validated on every run by the
   differential harness, which executes the generated definitions built from it against
   the real interpreter. *)
From Coq Require Import ZArith List Bool String.
Import ListNotations.
Open Scope Z_scope.

(* Exceptions that the modelled code can raise.  [ModelError] never corresponds to a real
   exception: it marks a place where the model's static typing (e.g. "vm.pc is an int")
   would be violated; the differential harness treats it as a disagreement. *)
Inductive exn :=
| IndexError | ValueError | KeyError | TypeError | AttributeError
| HERAError (msg : string) | NotImplementedError | RuntimeError
| SystemExit (code : Z) | OutOfFuel | ModelError (what : string).

Inductive res (A : Type) := Ok (a : A) | Raise (e : exn).
Arguments Ok {A} a.
Arguments Raise {A} e.

Definition rret {A} (a : A) : res A := Ok a.
Definition rbind {A B} (c : res A) (k : A -> res B) : res B :=
  match c with Ok a => k a | Raise e => Raise e end.
Definition rraise {A} (e : exn) : res A := Raise e.
Declare Scope r_scope.
Delimit Scope r_scope with R.
Notation "x <~ c ;; k" := (rbind c (fun x => k))
  (at level 61, c at next level, right associativity) : r_scope.
Open Scope r_scope.

(* Python values that flow through the modelled code. Strings are lists of code points. *)
(* [PF z] stands for the text that utils.format_int(z) returns (kept symbolic). *)
Inductive pv := PNone | PB (b : bool) | PI (z : Z) | PS (s : list Z) | PF (z : Z).

Definition as_int (v : pv) : Z :=
  match v with PB b => Z.b2z b | PI z => z | _ => 0 end.

Definition truthy (v : pv) : bool :=
  match v with
  | PNone => false
  | PB b => b
  | PI z => negb (z =? 0)
  | PS s => match s with [] => false | _ => true end
  | PF _ => true
  end.

Definition is_bool (v : pv) : Prop := exists b, v = PB b.
Definition is_boolb (v : pv) : bool := match v with PB _ => true | _ => false end.

(* arithmetic: bools coerce to ints, as in Python *)
Definition py_add a b := PI (as_int a + as_int b).
Definition py_sub a b := PI (as_int a - as_int b).
Definition py_mul a b := PI (as_int a * as_int b).
Definition py_neg a := PI (- as_int a).
(* Python's // and % are floor division: identical to Coq's Z.div / Z.modulo.
   The translator only admits a non-zero literal divisor. *)
Definition py_floordiv a b := PI (as_int a / as_int b).
Definition py_mod a b := PI (as_int a mod as_int b).
(* shifts: the translator only admits a non-negative literal shift count *)
Definition py_shl a b := PI (Z.shiftl (as_int a) (as_int b)).
Definition py_shr a b := PI (Z.shiftr (as_int a) (as_int b)).
(* bitwise operators keep bool-ness when both sides are bool *)
Definition py_band a b :=
  match a, b with PB x, PB y => PB (x && y) | _, _ => PI (Z.land (as_int a) (as_int b)) end.
Definition py_bor a b :=
  match a, b with PB x, PB y => PB (x || y) | _, _ => PI (Z.lor (as_int a) (as_int b)) end.
Definition py_bxor a b :=
  match a, b with PB x, PB y => PB (xorb x y) | _, _ => PI (Z.lxor (as_int a) (as_int b)) end.

(* comparisons (numbers only; strings compare by equality elsewhere) *)
Definition py_lt a b := PB (as_int a <? as_int b).
Definition py_le a b := PB (as_int a <=? as_int b).
Definition py_gt a b := PB (as_int a >? as_int b).
Definition py_ge a b := PB (as_int a >=? as_int b).
Fixpoint zlist_eqb (a b : list Z) : bool :=
  match a, b with
  | [], [] => true
  | x :: a', y :: b' => (x =? y) && zlist_eqb a' b'
  | _, _ => false
  end.
Definition py_eqb (a b : pv) : bool :=
  match a, b with
  | PNone, PNone => true
  | PS x, PS y => zlist_eqb x y
  | PF x, PF y => x =? y
  | PS _, _ | _, PS _ | PNone, _ | _, PNone | PF _, _ | _, PF _ => false
  | _, _ => as_int a =? as_int b
  end.
Definition py_eq a b := PB (py_eqb a b).
Definition py_ne a b := PB (negb (py_eqb a b)).

Definition py_not a := PB (negb (truthy a)).
(* `a and b`, `a or b` return one of their operands *)
Definition py_and (a b : pv) := if truthy a then b else a.
Definition py_or (a b : pv) := if truthy a then a else b.
Definition py_bool a := PB (truthy a).
Definition py_int a := PI (as_int a).
Definition py_ifexp (c a b : pv) := if truthy c then a else b.

(* Python list indexing with negative indices and IndexError *)
Definition norm_index (len i : Z) : option Z :=
  if i <? 0 then (if i + len <? 0 then None else Some (i + len))
  else if i <? len then Some i else None.

Fixpoint list_set {A} (l : list A) (n : nat) (v : A) : list A :=
  match l, n with
  | [], _ => []
  | _ :: t, O => v :: t
  | h :: t, S n' => h :: list_set t n' v
  end.

Definition zlen {A} (l : list A) : Z := Z.of_nat (List.length l).

Definition py_getitem {A} (d : A) (l : list A) (i : pv) : res A :=
  match i with
  | PI _ | PB _ =>
      match norm_index (zlen l) (as_int i) with
      | Some k => Ok (nth (Z.to_nat k) l d)
      | None => Raise IndexError
      end
  | _ => Raise TypeError
  end.

Definition py_setitem {A} (l : list A) (i : pv) (v : A) : res (list A) :=
  match i with
  | PI _ | PB _ =>
      match norm_index (zlen l) (as_int i) with
      | Some k => Ok (list_set l (Z.to_nat k) v)
      | None => Raise IndexError
      end
  | _ => Raise TypeError
  end.
