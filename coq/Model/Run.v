(* Run.v — VirtualMachine.run as an iteration of one loop step.  Hand-written around the
   generated pieces: the loop guards (Gen.Vm.run_guard*, translated from the `while`
   tests), reset (Gen.Vm.vm_reset) and the per-operation dispatcher (Gen.Ops.exec).  The
   control skeleton it assumes (reset; data statements; fetch code[pc]; set location;
   execute; count when throttling) is checked against the source by the translator on
   every run (tools/translate/gen.py: RUN_TEMPLATE). *)
From Coq Require Import ZArith List Bool String.
From Hera.Lib Require Import Py Machine.
From Hera.Gen Require Import Utils Vm Ops.
Import ListNotations.
Open Scope Z_scope.
Open Scope m_scope.

(* a preprocessed operation: class, argument values, an opaque id for op.loc *)
Record rop := mkrop { r_op : opname; r_args : list pv; r_loc : pv }.
Record program := mkprogram { p_data : list rop; p_code : list rop }.

Definition dummy_rop : rop := mkrop O_BRR [PI 0] PNone.

(* op = program.code[self.pc]; self.location = op.loc; op.execute(self) *)
Definition fetch_exec (code : list rop) : M unit :=
  v <- get_pc ;;
  op <- lift (py_getitem dummy_rop code v) ;;
  set_location (r_loc op) ;;;
  exec (r_op op) (r_args op).

(* one iteration of the unthrottled loop: None = the guard is false, the loop ends *)
Definition loop_step (code : list rop) (s : vm) : res (option vm) :=
  match run_guard (PI (zlen code)) s with
  | Raise e => Raise e
  | Ok (g, s1) =>
      if truthy g then
        match fetch_exec code s1 with Ok (_, s2) => Ok (Some s2) | Raise e => Raise e end
      else Ok None
  end.

Definition loop_step_throttled (n : Z) (code : list rop) (s : vm) : res (option vm) :=
  match run_guard_throttled (PI (zlen code)) (PI n) s with
  | Raise e => Raise e
  | Ok (g, s1) =>
      if truthy g then
        match (fetch_exec code ;;; c <- get_op_count ;; set_op_count (py_add c (PI 1))) s1 with
        | Ok (_, s2) => Ok (Some s2)
        | Raise e => Raise e
        end
      else Ok None
  end.

Fixpoint iter (step : vm -> res (option vm)) (fuel : nat) (s : vm) : res vm :=
  match fuel with
  | O => Raise OutOfFuel
  | S f =>
      match step s with
      | Raise e => Raise e
      | Ok None => Ok s
      | Ok (Some s') => iter step f s'
      end
  end.

(* the states at which the loop guard is evaluated, in order *)
Fixpoint visited (step : vm -> res (option vm)) (fuel : nat) (s : vm) : list vm :=
  match fuel with
  | O => [s]
  | S f =>
      match step s with
      | Ok (Some s') => s :: visited step f s'
      | _ => [s]
      end
  end.

Fixpoint exec_all (ops : list rop) : M unit :=
  match ops with
  | [] => ret tt
  | o :: t => exec (r_op o) (r_args o) ;;; exec_all t
  end.

Definition main_step (p : program) (s : vm) : vm -> res (option vm) :=
  match throttle (cfg s) with
  | None => loop_step (p_code p)
  | Some n => loop_step_throttled n (p_code p)
  end.

(* VirtualMachine.run(program) on a machine in state s *)
Definition run (fuel : nat) (p : program) (s : vm) : res vm :=
  match (vm_reset ;;; exec_all (p_data p)) s with
  | Raise e => Raise e
  | Ok (_, s0) => iter (main_step p s0) fuel s0
  end.
