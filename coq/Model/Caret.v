(* Caret.v — hand model of hera/utils.py align_caret (the white space printed in front of the caret that
   marks a diagnostic's column) and of how a terminal lays a line out when tab stops are w columns apart.
   Characters are code points.  Tied to the code by the C17 correspondence (align_caret itself, and the
   layout function against Python's str.expandtabs). *)
From Coq Require Import ZArith List.
Import ListNotations.
Open Scope Z_scope.

Definition TAB : Z := 9.
Definition SPACE : Z := 32.

(* "".join("\t" if c == "\t" else " " for c in line[: col - 1]), for col >= 1 *)
Definition align_caret (line : list Z) (col : Z) : list Z :=
  map (fun c => if c =? TAB then TAB else SPACE) (firstn (Z.to_nat (col - 1)) line).

(* the display column reached after writing s from display column [at] (0-based), tab stops every w *)
Fixpoint layout (w : Z) (at_ : Z) (s : list Z) : Z :=
  match s with
  | [] => at_
  | c :: r => layout w (if c =? TAB then at_ + (w - at_ mod w) else at_ + 1) r
  end.
