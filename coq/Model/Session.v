(* Session.v — hand-written model of a debugging session: every state-changing shell command
   (shell.py handlers decorated with @mutates) as a function on the session, `undo`, and the
   read-only commands (no effect).  Command lines are translated to `cmd` values by the
   correspondence harness, which resolves locations and parses nothing else. *)
From Coq Require Import ZArith List Bool String.
From Hera.Lib Require Import Py Machine.
From Hera.Gen Require Import Utils Vm Ops.
From Hera.Spec Require Import ISA.
From Hera.Model Require Import Run Debugger MiniParser.
Import ListNotations.
Open Scope Z_scope.
Open Scope m_scope.

Inductive lhs := LReg (r : Z) | LMem (a : expr) | LPc | LOther.
Inductive cmd :=
| CNext (n : Z)                       (* next [n] *)
| CStep | CContinue
| CBreak (b : Z) | CClear (bs : list Z) | CClearAll
| CFlags (fs : list flagname) (on : bool)
| CRestart | CGoto (b : Z)
| CAssign (l : lhs) (r : expr)
| CExecute (ops : list rop)
| CMutNop                             (* a state-changing command refused with a message *)
| CUndo
| CNop.                               (* print, info, list, ll, help, doc, asm, dis, unknown *)

Definition keep_vm (d : dstate) (r : res (unit * vm)) : res dstate :=
  match r with
  | Ok (_, s') => Ok (mkd s' (d_bps d) (d_calls d))
  | Raise (HERAError _) => Ok d          (* "Eval error: ..." *)
  | Raise e => Raise e
  end.

Definition do_assign (st : list (list Z * Z)) (l : lhs) (r : expr) (d : dstate) : res dstate :=
  match eval (d_vm d) st r with
  | None => Ok d
  | Some rhs =>
      match l with
      | LReg i => keep_vm d (vm_store_register (PI i) (PI rhs) (d_vm d))
      | LMem a =>
          match eval (d_vm d) st a with
          | None => Ok d
          | Some addr =>
              keep_vm d ((a' <- lift (to_u16 (PI addr)) ;; v' <- lift (to_u16 (PI rhs)) ;;
                          vm_store_memory a' v') (d_vm d))
          end
      | LPc => Ok (mkd (upd_pc rhs (d_vm d)) (d_bps d) (d_calls d))
      | LOther => Ok d
      end
  end.

Definition do_execute (ops : list rop) (d : dstate) : res dstate :=
  match exec_all ops (d_vm d) with
  | Ok (_, s') => Ok (mkd (upd_pc (pc (d_vm d)) s') (d_bps d) (d_calls d))
  | Raise e => Raise e
  end.

Definition do_step (code : dcode) (d : dstate) : res dstate :=
  if d_finished code d then Ok d
  else if opname_is (dp_src (nth (Z.to_nat (pc (d_vm d))) code dummy_dop)) O_CALL then next_into code d
  else Ok d.

Definition do_clear_list (bs : list Z) (d : dstate) : res dstate :=
  Ok (mkd (d_vm d) (filter (fun x => negb (existsb (Z.eqb x) bs)) (d_bps d)) (d_calls d)).

Definition sess_step (fuel : nat) (code : dcode) (data : list rop) (st : list (list Z * Z))
           (c : cmd) (s : session) : res session :=
  match c with
  | CNext n => mutate (next_n fuel code (Z.to_nat n)) s
  | CStep => mutate (do_step code) s
  | CContinue => mutate (do_continue fuel code) s
  | CBreak b => mutate (do_break b) s
  | CClear bs => mutate (do_clear_list bs) s
  | CClearAll => mutate do_clear_all s
  | CFlags fs b => mutate (do_flags fs b) s
  | CRestart => mutate (do_restart data) s
  | CGoto b => mutate (do_goto b) s
  | CAssign l r => mutate (do_assign st l r) s
  | CExecute ops => mutate (do_execute ops) s
  | CMutNop => mutate (fun d => Ok d) s
  | CUndo => Ok (undo s)
  | CNop => Ok s
  end.

(* ---- encoding for the correspondence -------------------------------------------------------------------- *)
From Hera.Lib Require Import Enc.
Definition enc_dstate (d : dstate) : list Z :=
  enc_vm (d_vm d) ++ enc_list (fun z => [z]) (d_bps d) ++ [d_calls d].

Fixpoint run_session (fuel : nat) (code : dcode) (data : list rop) (st : list (list Z * Z))
         (cs : list cmd) (s : session) : list Z :=
  match cs with
  | [] => 2 :: enc_list enc_dstate (s_hist s)
  | c :: t =>
      match sess_step fuel code data st c s with
      | Ok s' => 0 :: enc_dstate (s_cur s') ++ [Z.of_nat (List.length (s_hist s'))] ++ run_session fuel code data st t s'
      | Raise e => 1 :: enc_exn e
      end
  end.

Definition start_session (fuel : nat) (code : dcode) (data : list rop) (st : list (list Z * Z))
           (cs : list cmd) (s0 : vm) : list Z :=
  match d_init data s0 with
  | Ok s => 0 :: enc_vm s ++ run_session fuel code data st cs (mksess (mkd s [] 0) [])
  | Raise e => 1 :: enc_exn e
  end.
