(* Stdlib.v — hand-written model of hera/stdlib.py tiger_div / tiger_mod (the arithmetic shared by
   the stack and the register versions of the Tiger library's div and mod).
   Tied to the code by the C19 correspondence. *)
From Coq Require Import ZArith Bool.
Open Scope Z_scope.

Definition from_u16 (n : Z) : Z := if n >=? 32768 then - (65536 - n) else n.

Definition tiger_div (l r : Z) : Z :=
  let a := from_u16 l in let b := from_u16 r in
  if b =? 0 then 0
  else let q := Z.abs a / Z.abs b in
       (if xorb (a <? 0) (b <? 0) then - q else q) mod 65536.          (* & 0xFFFF *)

Definition tiger_mod (l r : Z) : Z :=
  let a := from_u16 l in let b := from_u16 r in
  if b =? 0 then 0
  else let m := Z.abs a mod Z.abs b in
       (if a <? 0 then - m else m) mod 65536.

(* ---- tiger_tstrcmp_reg: the register-convention string comparison, a Python helper over the machine's memory ----
   [rd] is vm.load_memory (0 beyond the end of the list; addresses are not wrapped by the helper).  A string at
   address s is its length rd s followed by its characters rd (s+1) ... *)
Fixpoint tstrcmp_go (rd : Z -> Z) (s1 s2 : Z) (k : nat) (i : Z) : option Z :=
  match k with
  | O => None                                        (* ran through the common prefix *)
  | S k' =>
      let c1 := rd (s1 + i + 1) in let c2 := rd (s2 + i + 1) in
      if c1 <? c2 then Some 65535                    (* to_u16(-1) *)
      else if c2 <? c1 then Some 1
      else tstrcmp_go rd s1 s2 k' (i + 1)
  end.
Definition tstrcmp_reg (rd : Z -> Z) (s1 s2 : Z) : Z :=
  let n1 := rd s1 in let n2 := rd s2 in
  match tstrcmp_go rd s1 s2 (Z.to_nat (Z.min n1 n2)) 0 with
  | Some r => r
  | None => if n1 =? n2 then 0 else if n1 <? n2 then 65535 else 1
  end.
