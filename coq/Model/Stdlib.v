(* Stdlib.v — hand-written model of hera/stdlib.py tiger_div / tiger_mod (the arithmetic shared by
   the stack and the register versions of the Tiger library's div and mod).
   Tied to the code by the C19 correspondence. *)
From Coq Require Import ZArith Bool.
Open Scope Z_scope.

Definition from_u16 (n : Z) : Z := if n >=? 32768 then - (65536 - n) else n.

Definition tiger_div (l r : Z) : Z :=
  let a := from_u16 l in let b := from_u16 r in
  if b =? 0 then 0
  else let q := Z.abs a / Z.abs b in
       (if xorb (a <? 0) (b <? 0) then - q else q) mod 65536.          (* & 0xFFFF *)

Definition tiger_mod (l r : Z) : Z :=
  let a := from_u16 l in let b := from_u16 r in
  if b =? 0 then 0
  else let m := Z.abs a mod Z.abs b in
       (if a <? 0 then - m else m) mod 65536.
