(* Ifdef.v — hand-written model of hera/parser.py evaluate_ifdefs(text, keep_lines=True) at the
   level of lines: every line is classified (directive or text) and the keep-stack machine
   blanks the directives and the discarded lines.  Whitespace-only lines next to a directive may
   lose their blanks in the real function (the regular expression's \s* spans them); the
   correspondence therefore compares outputs with whitespace-only lines read as empty.
   Tied to the code by the C16 correspondence. *)
From Coq Require Import ZArith List Bool.
From Hera.Model Require Import Lexer.
Import ListNotations.
Open Scope Z_scope.

Inductive lkind := KText | KIfdef (w : list Z) | KIfndef (w : list Z) | KElse | KEndif.

(* ---- the four regular expressions, on one line -------------------------------------------------------- *)
Definition is_lspace (c : Z) : bool := is_space c.          (* \s, no newline inside a line *)
Fixpoint drop_ws (l : list Z) : list Z := match l with c :: r => if is_lspace c then drop_ws r else l | [] => [] end.
Fixpoint strip_prefix (p l : list Z) : option (list Z) :=
  match p, l with
  | [], _ => Some l
  | a :: p', b :: l' => if a =? b then strip_prefix p' l' else None
  | _ :: _, [] => None
  end.
Definition is_sym_start (c : Z) : bool := is_alpha c || (c =? 95).
Fixpoint take_sym (l : list Z) : list Z * list Z :=
  match l with c :: r => if is_symch c then let '(a, b) := take_sym r in (c :: a, b) else ([], l) | [] => ([], []) end.

Definition w_ifdef : list Z := [35; 105; 102; 100; 101; 102].          (* #ifdef *)
Definition w_ifndef : list Z := [35; 105; 102; 110; 100; 101; 102].    (* #ifndef *)
Definition w_else : list Z := [35; 101; 108; 115; 101].                (* #else *)
Definition w_endif : list Z := [35; 101; 110; 100; 105; 102].          (* #endif *)
Definition hera_py : list Z := [72; 69; 82; 65; 95; 80; 89].           (* HERA_PY *)

(* \s+ SYMBOL \s* $ *)
Definition sym_arg (l : list Z) : option (list Z) :=
  match l with
  | c :: r =>
      if is_lspace c then
        match drop_ws r with
        | d :: r' => if is_sym_start d then
                       let '(w, tl) := take_sym (d :: r') in
                       match drop_ws tl with [] => Some w | _ => None end
                     else None
        | [] => None
        end
      else None
  | [] => None
  end.

Definition classify (line : list Z) : lkind :=
  let l := drop_ws line in
  match strip_prefix w_ifdef l with
  | Some r => match sym_arg r with Some w => KIfdef w | None => KText end
  | None =>
  match strip_prefix w_ifndef l with
  | Some r => match sym_arg r with Some w => KIfndef w | None => KText end
  | None =>
  match strip_prefix w_else l with
  | Some r => match drop_ws r with [] => KElse | _ => KText end
  | None =>
  match strip_prefix w_endif l with
  | Some r => match drop_ws r with [] => KEndif | _ => KText end
  | None => KText
  end end end end.

(* ---- the keep-stack machine (generic in the classifier) ------------------------------------------------ *)
Section Machine.
  Variable cls : list Z -> lkind.

  Definition top (st : list bool) : bool := match st with b :: _ => b | [] => true end.

  Fixpoint run (st : list bool) (lines : list (list Z)) : list (list Z) :=
    match lines with
    | [] => []
    | l :: r =>
        match cls l with
        | KText => (if top st then l else []) :: run st r
        | KIfdef w => [] :: run ((top st && codes_eqb w hera_py) :: st) r
        | KIfndef w => [] :: run ((top st && negb (codes_eqb w hera_py)) :: st) r
        | KElse =>
            [] :: run (match st with
                       | b :: ((p :: _) as outer) => (p && negb b) :: outer
                       | _ => st
                       end) r
        | KEndif => [] :: run (match st with _ :: ((_ :: _) as outer) => outer | _ => st end) r
        end
    end.
End Machine.

Definition ifdef_lines (lines : list (list Z)) : list (list Z) := run classify [true] lines.

(* splitting a text into lines on \n and joining back *)
Fixpoint split_lines (cur : list Z) (l : list Z) : list (list Z) :=
  match l with
  | [] => [rev cur]
  | c :: r => if c =? 10 then rev cur :: split_lines [] r else split_lines (c :: cur) r
  end.
Definition enc_lines (ls : list (list Z)) : list Z :=
  Z.of_nat (List.length ls) :: flat_map (fun l => Z.of_nat (List.length l) :: l) ls.
