(* Format.v — hand model of hera/utils.py format_int: how a 16-bit value is shown to the user (the register dump at
   the end of a run, print_reg, the debugger's print and info), and an independent reader of integer literals
   (decimal with an optional minus sign, 0x / 0o / 0b prefixes: what Python's int(s, 0) and the HERA lexer accept).
   Texts are lists of code points; values are 0 <= v < 65536.  Tied to the code by the C14 correspondence
   (format_int on sampled values x every specifier string against the real function). *)
From Coq Require Import ZArith List Bool.
From Hera.Model Require Import Listing.
Import ListNotations.
Open Scope Z_scope.

(* str(v), 0 <= v < 10^5 *)
Definition fmt_d (v : Z) : list Z := dec v.
(* "0x{:0>4x}" *)
Definition fmt_x (v : Z) : list Z := 48 :: 120 :: hex4 v.
(* "0o{:0>8o}" *)
Definition fmt_o (v : Z) : list Z :=
  48 :: 111 :: map (fun k => 48 + v / 8 ^ k mod 8) [7; 6; 5; 4; 3; 2; 1; 0].
(* "0b{:0>16b}" *)
Definition fmt_b (v : Z) : list Z :=
  48 :: 98 :: map (fun k => 48 + v / 2 ^ k mod 2) [15; 14; 13; 12; 11; 10; 9; 8; 7; 6; 5; 4; 3; 2; 1; 0].
(* str(from_u16(v)) for v with the sign bit set *)
Definition fmt_s (v : Z) : list Z := 45 :: dec (65536 - v).

(* chr(v).isprintable() for 0 <= v < 128 *)
Definition printable (v : Z) : bool := (32 <=? v) && (v <? 127).

(* repr(chr(v)) for 0 <= v < 128 *)
Definition repr_chr (v : Z) : list Z :=
  if v =? 39 then [34; 39; 34]
  else if v =? 92 then [39; 92; 92; 39]
  else if printable v then [39; v; 39]
  else if v =? 9 then [39; 92; 116; 39]
  else if v =? 10 then [39; 92; 110; 39]
  else if v =? 13 then [39; 92; 114; 39]
  else [39; 92; 120; hexdigit (v / 16); hexdigit (v mod 16); 39].

Definition NOT_ASCII : list Z :=
  [110; 111; 116; 32; 97; 110; 32; 65; 83; 67; 73; 73; 32; 99; 104; 97; 114; 97; 99; 116; 101; 114].
Definition NOT_SIGNED : list Z :=
  [110; 111; 116; 32; 97; 32; 115; 105; 103; 110; 101; 100; 32; 105; 110; 116; 101; 103; 101; 114].

(* what one specifier letter contributes: None = unknown letter (RuntimeError), Some None = nothing *)
Definition piece (v : Z) (c : Z) : option (option (list Z)) :=
  if c =? 100 then Some (Some (fmt_d v))
  else if c =? 120 then Some (Some (fmt_x v))
  else if c =? 111 then Some (Some (fmt_o v))
  else if c =? 98 then Some (Some (fmt_b v))
  else if c =? 99 then Some (if (v <? 128) && printable v then Some (repr_chr v) else None)
  else if c =? 67 then Some (Some (if v <? 128 then repr_chr v else NOT_ASCII))
  else if c =? 115 then Some (if 32768 <=? v then Some (fmt_s v) else None)
  else if c =? 83 then Some (Some (if 32768 <=? v then fmt_s v else NOT_SIGNED))
  else None.

Fixpoint pieces (v : Z) (spec : list Z) : option (list (list Z)) :=
  match spec with
  | [] => Some []
  | c :: r => match piece v c, pieces v r with
              | Some (Some p), Some ps => Some (p :: ps)
              | Some None, Some ps => Some ps
              | _, _ => None
              end
  end.

(* " = ".join *)
Fixpoint join_eq (ps : list (list Z)) : list Z :=
  match ps with
  | [] => []
  | [p] => p
  | p :: r => p ++ [32; 61; 32] ++ join_eq r
  end.

Definition format_int (v : Z) (spec : list Z) : option (list Z) := option_map join_eq (pieces v spec).

(* ---- the reader ------------------------------------------------------------------------------------------ *)

Fixpoint parse_base_acc (b : Z) (s : list Z) (acc : Z) : option Z :=
  match s with
  | [] => Some acc
  | c :: r => match hexval c with
              | Some d => if d <? b then parse_base_acc b r (b * acc + d) else None
              | None => None
              end
  end.

Definition parse_base (b : Z) (s : list Z) : option Z :=
  match s with [] => None | _ :: _ => parse_base_acc b s 0 end.

(* an integer literal: [-] digits | [-] 0x hex | [-] 0o octal | [-] 0b binary *)
Definition read_unsigned (s : list Z) : option Z :=
  match s with
  | 48 :: 120 :: r => parse_base 16 r
  | 48 :: 111 :: r => parse_base 8 r
  | 48 :: 98 :: r => parse_base 2 r
  | _ => parse_base 10 s
  end.

Definition read_int (s : list Z) : option Z :=
  match s with
  | 45 :: r => option_map Z.opp (read_unsigned r)
  | _ => read_unsigned s
  end.
