(* Lexer.v — hand-written model of hera/lexer.py over ASCII text (character codes 0..127).
   The state carries the *remaining* text, so "position < len(text)" is "rest <> []", and a
   call of next_char at the end of the text — an IndexError in the Python — is recorded in the
   sticky flag [oob] instead of being made impossible: that it never happens is a theorem
   (Proofs/C07_Lexer.v), not an artefact of the modelling.
   Tied to the code by the token-stream correspondence (tools/props/lexcases.py). *)
From Coq Require Import ZArith List Bool.
Import ListNotations.
Open Scope Z_scope.

Inductive ttype :=
| T_INT | T_REGISTER | T_SYMBOL | T_STRING | T_BRACKETED | T_CHAR | T_MINUS | T_AT | T_ASTERISK | T_PLUS
| T_SLASH | T_LPAREN | T_RPAREN | T_LBRACE | T_RBRACE | T_COMMA | T_SEMICOLON | T_FMT | T_INCLUDE | T_EOF
| T_ERROR (why : Z)      (* 1 unclosed string, 2 unclosed char, 3 over-long char, 4 unclosed bracketed *)
| T_UNKNOWN.

Record lx := mklx { rest : list Z; line : Z; col : Z; pos : nat; oob : bool }.
Record tok := mktok { t_type : ttype; t_value : list Z; t_line : Z; t_col : Z; t_start : nat }.
(* a warning: kind (1 invalid hex escape, 2 invalid octal escape, 3 unrecognized backslash escape), line, column *)
Definition lwarn := (Z * Z * Z)%type.

Definition start (text : list Z) : lx := mklx text 1 1 0 false.

(* ---- character classes (ASCII) -------------------------------------------------------------------------- *)
Definition is_alpha (c : Z) : bool := ((65 <=? c) && (c <=? 90)) || ((97 <=? c) && (c <=? 122)).
Definition is_digit (c : Z) : bool := (48 <=? c) && (c <=? 57).
Definition is_space (c : Z) : bool := ((9 <=? c) && (c <=? 13)) || ((28 <=? c) && (c <=? 32)).
Definition is_symch (c : Z) : bool := is_alpha c || is_digit c || (c =? 95).
Definition is_hex (c : Z) : bool := is_digit c || ((97 <=? c) && (c <=? 102)) || ((65 <=? c) && (c <=? 70)).
Definition lower (c : Z) : Z := if (65 <=? c) && (c <=? 90) then c + 32 else c.

(* ---- primitive movement ----------------------------------------------------------------------------------- *)
Definition next_char (s : lx) : lx :=
  match rest s with
  | c :: r => if c =? 10 then mklx r (line s + 1) 1 (S (pos s)) (oob s)
              else mklx r (line s) (col s + 1) (S (pos s)) (oob s)
  | [] => mklx [] (line s) (col s) (pos s) true        (* text[position] past the end: IndexError *)
  end.
Fixpoint adv (n : nat) (s : lx) : lx := match n with O => s | S k => adv k (next_char s) end.
(* peek_char(n): None past the end (the empty string) *)
Definition peek (n : nat) (s : lx) : option Z := nth_error (rest s) n.
Definition peek_is (f : Z -> bool) (n : nat) (s : lx) : bool := match peek n s with Some c => f c | None => false end.

(* ---- skip(): whitespace and comments -------------------------------------------------------------------- *)
Fixpoint count_while (f : Z -> bool) (l : list Z) : nat :=
  match l with c :: r => if f c then S (count_while f r) else O | [] => O end.
(* characters up to (not including) the closing star-slash; the whole rest if the comment is never closed *)
Fixpoint to_block_end (l : list Z) : nat * bool :=
  match l with
  | a :: r =>
      if (a =? 42) && (match r with b :: _ => b =? 47 | [] => false end) then (O, true)
      else let '(n, closed) := to_block_end r in (S n, closed)
  | [] => (O, false)
  end.

Fixpoint skip (fuel : nat) (s : lx) : lx :=
  match fuel with
  | O => s
  | S f =>
      let s1 := adv (count_while is_space (rest s)) s in
      match rest s1 with
      | a :: b :: _ =>
          if (a =? 47) && (b =? 47) then skip f (adv (count_while (fun c => negb (c =? 10)) (rest s1)) s1)
          else if (a =? 47) && (b =? 42) then
            let s2 := adv 2 s1 in
            let '(n, closed) := to_block_end (rest s2) in
            skip f (if closed then adv (n + 2) s2 else adv n s2)
          else s1
      | _ => s1
      end
  end.

(* ---- tokens ---------------------------------------------------------------------------------------------------- *)
Definition set_token (ty : ttype) (len : nat) (s : lx) : tok * lx :=
  (mktok ty (firstn len (rest s)) (line s) (col s) (pos s), adv len s).

Definition sym_len (l : list Z) : nat := match l with _ :: r => S (count_while is_symch r) | [] => O end.

Definition codes_eqb (a b : list Z) : bool :=
  (Nat.eqb (List.length a) (List.length b)) && forallb (fun p => fst p =? snd p) (combine a b).
Definition named_registers : list (list Z) :=
  [[114; 116]; [102; 112]; [115; 112]; [112; 99; 95; 114; 101; 116]; [102; 112; 95; 97; 108; 116]].   (* rt fp sp pc_ret fp_alt *)
Definition is_register (w : list Z) : bool :=
  match w with
  | c :: r => ((lower c =? 114) && negb (Nat.eqb (List.length r) 0) && forallb is_digit r)
              || existsb (codes_eqb (map lower w)) named_registers
  | [] => false
  end.

Definition int_len (l : list Z) : nat :=
  match l with
  | z0 :: p :: r =>
      if (z0 =? 48) && existsb (Z.eqb p) [98; 111; 120; 66; 79; 88] then
        2 + count_while (if (p =? 120) || (p =? 88) then (fun c => is_digit c || is_alpha c) else is_digit) r
      else S (count_while is_digit (p :: r))
  | _ :: r => S (count_while is_digit r)
  | [] => O
  end.

(* escape_char *)
Definition escape_char (c : Z) : list Z :=
  if c =? 110 then [10] else if c =? 116 then [9] else if c =? 92 then [92] else if c =? 34 then [34] else [92; c].

Definition hexval (c : Z) : Z := if is_digit c then c - 48 else if c <? 97 then c - 55 else c - 87.
Fixpoint octval (acc : Z) (l : list Z) : option Z :=
  match l with
  | [] => Some acc
  | c :: r => if (48 <=? c) && (c <=? 55) then octval (8 * acc + (c - 48)) r else None
  end.

(* read_escape_char at a backslash: (value, length, warning kind or 0) *)
Definition read_escape (s : lx) : list Z * nat * Z :=
  match peek 1 s with
  | None => ([], O, 0)
  | Some p =>
      if p =? 120 then
        match peek 2 s, peek 3 s with
        | Some a, Some b => if is_hex a && is_hex b then ([16 * hexval a + hexval b], 3%nat, 0) else ([120], 1%nat, 1)
        | _, _ => ([120], 1%nat, 1)
        end
      else if is_digit p then
        let n := Nat.min 3 (count_while is_digit (skipn 1 (rest s))) in
        match octval 0 (firstn n (skipn 1 (rest s))) with
        | Some v => ([v], n, 0)
        | None => ([p], 1%nat, 2)
        end
      else (escape_char p, 1%nat, if Nat.eqb (List.length (escape_char p)) 2 then 3 else 0)
  end.

(* consume_delimited *)
Fixpoint delimited (fuel : nat) (d : Z) (s : lx) (acc : list Z) (ws : list lwarn) : list Z * lx * list lwarn :=
  match fuel with
  | O => (acc, s, ws)
  | S f =>
      match rest s with
      | [] => (acc, s, ws)
      | c :: _ =>
          if c =? d then (acc, s, ws)
          else if c =? 92 then
            let '(v, n, w) := read_escape s in
            let ws' := if w =? 0 then ws else ws ++ [(w, line s, col s + 1)] in
            let s1 := next_char s in
            match n with
            | O => (acc, s1, ws')
            | _ => delimited f d (adv n s1) (acc ++ v) ws'
            end
          else delimited f d (next_char s) (acc ++ [c]) ws
      end
  end.

Definition starts_with (p l : list Z) : bool := codes_eqb p (firstn (List.length p) l).
Definition include_word : list Z := [35; 105; 110; 99; 108; 117; 100; 101].     (* #include *)

Definition single (c : Z) : ttype :=
  if c =? 45 then T_MINUS else if c =? 43 then T_PLUS else if c =? 47 then T_SLASH else if c =? 42 then T_ASTERISK
  else if c =? 64 then T_AT else if c =? 40 then T_LPAREN else if c =? 41 then T_RPAREN else if c =? 123 then T_LBRACE
  else if c =? 125 then T_RBRACE else if c =? 44 then T_COMMA else if c =? 59 then T_SEMICOLON else T_UNKNOWN.

Definition next_token (s0 : lx) : tok * lx * list lwarn :=
  let s := skip (S (List.length (rest s0))) s0 in
  match rest s with
  | [] => (set_token T_EOF 0 s, [])
  | ch :: r =>
      if is_alpha ch || (ch =? 95) then
        let n := sym_len (rest s) in
        (set_token (if is_register (firstn n (rest s)) then T_REGISTER else T_SYMBOL) n s, [])
      else if is_digit ch then (set_token T_INT (int_len (rest s)) s, [])
      else if (ch =? 34) || (ch =? 39) then
        let s1 := next_char s in
        let '(v, s2, ws) := delimited (List.length (rest s1)) ch s1 [] [] in
        match rest s2 with
        | [] => (mktok (T_ERROR (if ch =? 34 then 1 else 2)) [] (line s) (col s) (pos s), s2, ws)
        | _ :: _ =>
            let s3 := next_char s2 in
            if ch =? 34 then (mktok T_STRING v (line s) (col s) (pos s), s3, ws)
            else match v with
                 | [c] => (mktok T_CHAR [c] (line s) (col s) (pos s), s3, ws)
                 | [b; c] => (mktok (if b =? 92 then T_CHAR else T_ERROR 3) (if b =? 92 then [c] else [])
                                    (line s) (col s) (pos s), s3, ws)
                 | _ => (mktok (T_ERROR 3) [] (line s) (col s) (pos s), s3, ws)
                 end
        end
      else if starts_with include_word (rest s) then (set_token T_INCLUDE 8 s, [])
      else if ch =? 60 then
        let s1 := next_char s in
        let n := count_while (fun c => negb (c =? 62)) (rest s1) in
        let s2 := adv n s1 in
        match rest s2 with
        | [] => (mktok (T_ERROR 4) [] (line s1) (col s1) (pos s1), s2, [])
        | _ :: _ => (mktok T_BRACKETED (firstn n (rest s1)) (line s1) (col s1) (pos s1), next_char s2, [])
        end
      else if ch =? 58 then
        let s1 := next_char s in
        let n := if peek_is is_symch 0 s1 then sym_len (rest s1) else 0%nat in
        (* the value is the name after the colon, the location is the colon's *)
        (mktok T_FMT (firstn n (rest s1)) (line s) (col s) (pos s), adv n s1, [])
      else (set_token (single ch) 1 s, [])
  end.

(* the whole token stream, EOF included *)
Fixpoint lex_all (fuel : nat) (s : lx) : list tok * list lwarn * lx :=
  match fuel with
  | O => ([], [], s)
  | S f =>
      let '(t, s1, ws) := next_token s in
      match t_type t with
      | T_EOF => ([t], ws, s1)
      | _ => let '(ts, ws', s2) := lex_all f s1 in (t :: ts, ws ++ ws', s2)
      end
  end.
Definition lex (text : list Z) : list tok * list lwarn * lx := lex_all (S (List.length text)) (start text).

(* ---- encoding for the correspondence ---------------------------------------------------------------------------- *)
Definition ttype_code (t : ttype) : list Z :=
  match t with
  | T_INT => [1] | T_REGISTER => [2] | T_SYMBOL => [3] | T_STRING => [4] | T_BRACKETED => [5] | T_CHAR => [6]
  | T_MINUS => [7] | T_AT => [8] | T_ASTERISK => [9] | T_PLUS => [10] | T_SLASH => [11] | T_LPAREN => [12]
  | T_RPAREN => [13] | T_LBRACE => [14] | T_RBRACE => [15] | T_COMMA => [16] | T_SEMICOLON => [17] | T_FMT => [18]
  | T_INCLUDE => [19] | T_EOF => [20] | T_ERROR w => [21; w] | T_UNKNOWN => [22]
  end.
Definition enc_tok (t : tok) : list Z :=
  ttype_code (t_type t) ++ Z.of_nat (List.length (t_value t)) :: t_value t ++ [t_line t; t_col t; Z.of_nat (t_start t)].
Definition enc_lex (r : list tok * list lwarn * lx) : list Z :=
  let '(ts, ws, s) := r in
  Z.of_nat (List.length ts) :: flat_map enc_tok ts
  ++ Z.of_nat (List.length ws) :: flat_map (fun w : lwarn => [fst (fst w); snd (fst w); snd w]) ws
  ++ [Z.b2z (oob s); Z.of_nat (pos s)].
