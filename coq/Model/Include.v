(* Include.v — hand-written abstract model of #include processing in hera/parser.py
   (Parser.match_include / Parser.parse with the `visited` set): files are numbered, a file is a
   list of operations and include directives, `visited` is the stack of files being parsed.
   Path arithmetic (dirname/join/realpath) is NOT modelled: the harness resolves every written
   path to a file number with its own resolver and the include oracle runs the real parser on
   real directory trees.  Tied to the code by that oracle (tools/props/frontcases.py). *)
From Coq Require Import ZArith List Bool Arith.
Import ListNotations.

Inductive iitem := IOp (o : Z) | IInc (target : option nat).     (* None: the file does not exist *)
Inductive iout := OOp (o : Z) | ORecursive (in_file : nat) | OMissing (in_file : nat).

Definition file (fs : list (list iitem)) (k : nat) : list iitem := nth k fs [].
Definition on_stack (t : nat) (st : list nat) : bool := existsb (Nat.eqb t) st.

(* None = out of fuel.  Recursion on the fuel for entering a file, on the items inside a file. *)
Fixpoint expand (fuel : nat) (fs : list (list iitem)) : list nat -> nat -> list iitem -> option (list iout) :=
  fix go (stack : list nat) (cur : nat) (items : list iitem) {struct items} : option (list iout) :=
    match items with
    | [] => Some []
    | IOp o :: r => option_map (cons (OOp o)) (go stack cur r)
    | IInc None :: r => option_map (cons (OMissing cur)) (go stack cur r)
    | IInc (Some t) :: r =>
        if on_stack t (cur :: stack) then option_map (cons (ORecursive cur)) (go stack cur r)
        else match fuel with
             | O => None
             | S f =>
                 match expand f fs (cur :: stack) t (file fs t), go stack cur r with
                 | Some a, Some b => Some (a ++ b)
                 | _, _ => None
                 end
             end
    end.

Definition expand_main (fs : list (list iitem)) : option (list iout) :=
  expand (List.length fs) fs [] 0 (file fs 0).

(* encoding for the correspondence *)
Definition enc_iout (o : iout) : list Z :=
  match o with OOp x => [0%Z; x] | ORecursive f => [1%Z; Z.of_nat f] | OMissing f => [2%Z; Z.of_nat f] end.
Definition enc_expand (r : option (list iout)) : list Z :=
  match r with Some l => 0%Z :: flat_map enc_iout l | None => [1%Z] end.
