(* Preproc.v — hand-written model of hera/checker.py (check, typecheck,
   check_symbol_redeclaration, get_labels, convert_ops, substitute_label, interrupt_name)
   and of the type-checking half of hera/op.py (AbstractOperation.typecheck, check_arglist,
   check_register / check_register_or_label / check_label / check_string / check_in_range and
   the typecheck overrides of CALL_AND_RETURN, RETURN, NOT, OPCODE).
   Parameterised by the generated tables (P_of, operation_length, class hierarchy facts) and the
   generated convert.  Tied to the code by the correspondence harness (C04/C08/C09). *)
From Coq Require Import ZArith List Bool String Ascii.
From Hera.Lib Require Import Py.
From Hera.Gen Require Import Utils Ops Tables Convert.
From Hera.Model Require Import OpRep Bitvec.
Import ListNotations.
Open Scope Z_scope.
Open Scope r_scope.

(* ---- symbol table: a Python dict (insertion-ordered) from names to typed integers ---------- *)
Inductive symval := SLabel (v : Z) | SDataLabel (v : Z) | SConstant (v : Z).
Definition sym_int (s : symval) : Z := match s with SLabel v | SDataLabel v | SConstant v => v end.
Definition symtab := list (pv * symval).

Fixpoint dict_get {V} (d : list (pv * V)) (k : pv) : option V :=
  match d with
  | [] => None
  | (k', v) :: t => if py_eqb k' k then Some v else dict_get t k
  end.
Fixpoint dict_set {V} (d : list (pv * V)) (k : pv) (v : V) : list (pv * V) :=
  match d with
  | [] => [(k, v)]
  | (k', v') :: t => if py_eqb k' k then (k', v) :: t else (k', v') :: dict_set t k v
  end.

(* ---- messages ---------------------------------------------------------------------------------- *)
Inductive mloc := LocOp | LocTok (i : nat) | LocNone.
Record msg := mkmsg { m_err : bool; m_fmt : string; m_args : list pv; m_loc : mloc }.
Definition err (f : string) (a : list pv) (l : mloc) : msg := mkmsg true f a l.
Definition warn (f : string) (a : list pv) (l : mloc) : msg := mkmsg false f a l.
Definition has_errors (l : list msg) : bool := existsb m_err l.
Definition name_pv (c : opname) : pv := PS (map (fun a => Z.of_nat (nat_of_ascii a)) (list_ascii_of_string (opname_text c))).

Record csettings := mkcs {
  cs_mode : string;              (* "", "debug", "assemble", "preprocess" *)
  cs_allow_interrupts : bool;
  cs_no_debug_ops : bool;
  cs_data_start : Z;
}.
Definition strips_debug (c : csettings) : bool :=
  String.eqb (cs_mode c) "assemble" || String.eqb (cs_mode c) "preprocess".

(* ---- per-operand checks --------------------------------------------------------------------------- *)
Definition lower_code (c : Z) : Z := if (65 <=? c) && (c <=? 90) then c + 32 else c.
Definition is_pc_name (v : pv) : bool :=
  match v with PS s => zlist_eqb (map lower_code s) [112; 99] | _ => false end.

Definition check_register (t : token) : option string :=
  match t_type t with
  | T_REGISTER => None
  | _ => if is_pc_name (t_val t) then Some "program counter cannot be accessed or changed directly"%string
         else Some "expected register"%string
  end.

Definition check_register_or_label (t : token) (st : symtab) : option string :=
  match t_type t with
  | T_REGISTER => None
  | T_SYMBOL =>
      match dict_get st (t_val t) with
      | None => Some "undefined symbol"%string
      | Some (SConstant _) => Some "constant cannot be used as label"%string
      | Some (SDataLabel _) => Some "data label cannot be used as branch label"%string
      | Some (SLabel _) => None
      end
  | _ => Some "expected register or label"%string
  end.

Definition check_label (t : token) : option string :=
  match t_type t with T_SYMBOL => None | _ => Some "expected label"%string end.
Definition check_string (t : token) : option string :=
  match t_type t with T_STRING => None | _ => Some "expected string literal"%string end.

Inductive argerr := AE (s : string) | AERange (lo hi : Z).

Definition range_check (v lo hi : Z) : option argerr :=
  if (v <? lo) || (v >=? hi) then Some (AERange lo hi) else None.

Definition check_in_range (t : token) (st : symtab) (lo hi : Z) (labels : bool) : option argerr :=
  match t_type t with
  | T_SYMBOL =>
      match dict_get st (t_val t) with
      | None => Some (AE "undefined constant")
      | Some sv =>
          match labels, sv with
          | false, SConstant v => range_check v lo hi
          | false, _ => Some (AE "cannot use label as constant")
          | true, SLabel _ => None
          | true, _ => range_check (sym_int sv) lo hi
          end
      end
  | T_INT => match t_val t with
             | PI v => range_check v lo hi
             | PB b => range_check (Z.b2z b) lo hi
             | _ => Some (AE "expected integer")   (* not produced by the parser *)
             end
  | _ => Some (AE "expected integer")
  end.

Definition lift_str (o : option string) : option argerr :=
  match o with Some s => Some (AE s) | None => None end.

Definition check_arg (p : ptype) (t : token) (st : symtab) : option argerr :=
  match p with
  | P_REGISTER => lift_str (check_register t)
  | P_REGISTER_OR_LABEL => lift_str (check_register_or_label t st)
  | P_LABEL_TYPE => lift_str (check_label t)
  | P_STRING => lift_str (check_string t)
  | P_I16_OR_LABEL => check_in_range t st (-32768) 65536 true
  | P_I8_OR_LABEL => check_in_range t st (-128) 256 true
  | P_RANGE lo hi => check_in_range t st lo hi false
  end.

Definition argerr_msg (e : argerr) (i : nat) : msg :=
  match e with
  | AE s => err s [] (LocTok i)
  | AERange lo hi => err "integer must be in range [{}, {})" [PI lo; PI hi] (LocTok i)
  end.

Fixpoint check_arglist (ps : list ptype) (ts : list token) (st : symtab) (i : nat) : list msg :=
  match ps, ts with
  | p :: ps', t :: ts' =>
      match check_arg p t st with
      | Some e => argerr_msg e i :: check_arglist ps' ts' st (S i)
      | None => check_arglist ps' ts' st (S i)
      end
  | _, _ => []
  end.

Definition default_typecheck (o : op) (st : symtab) : list msg :=
  let np := zlen (P_of (o_cls o)) in
  let nt := zlen (o_toks o) in
  (if np <? nt then [err "too many args to {} (expected {})" [name_pv (o_cls o); PI np] LocOp]
   else if nt <? np then [err "too few args to {} (expected {})" [name_pv (o_cls o); PI np] LocOp]
   else [])
  ++ check_arglist (P_of (o_cls o)) (o_toks o) st 0.

Definition tok_is_reg_ne (t : option token) (n : Z) : bool :=
  match t with
  | Some (mktok T_REGISTER (PI v)) => negb (v =? n)
  | _ => false
  end.
Definition tok_is_reg_eq (t : option token) (n : Z) : bool :=
  match t with
  | Some (mktok T_REGISTER (PI v)) => v =? n
  | _ => false
  end.

(* the value of the single operand of OPCODE once it has type-checked *)
Definition opcode_value (o : op) (st : symtab) : option Z :=
  match o_toks o with
  | [mktok T_SYMBOL name] => match dict_get st name with Some sv => Some (sym_int sv) | None => None end
  | [mktok _ (PI v)] => Some v
  | _ => None
  end.

Definition op_typecheck (o : op) (st : symtab) (assembly_only : bool) : list msg :=
  let base := default_typecheck o st in
  match o_cls o with
  | O_CALL =>
      base ++ (if tok_is_reg_ne (nth_error (o_toks o) 0) 12
               then [warn "first argument to {} should be R12" [name_pv O_CALL] (LocTok 0)] else [])
  | O_RETURN =>
      base ++ (if tok_is_reg_ne (nth_error (o_toks o) 0) 12
               then [warn "first argument to {} should be R12" [name_pv O_RETURN] (LocTok 0)] else [])
           ++ (if tok_is_reg_ne (nth_error (o_toks o) 1) 13
               then [warn "second argument to RETURN should be R13" [] (LocTok 1)] else [])
  | O_NOT =>
      base ++ (if (zlen (o_toks o) =? 2) && tok_is_reg_eq (nth_error (o_toks o) 1) 11
               then [warn "don't use R11 with NOT" [] (LocTok 1)] else [])
  | O_OPCODE =>
      if has_errors base then base
      else match opcode_value o st with
           | Some v =>
               match disassemble v assembly_only with
               | Raise (HERAError _) => if assembly_only then base else base ++ [err "not a HERA instruction" [] (LocTok 0)]
               | _ => base
               end
           | None => base
           end
  | _ => base
  end.

(* ---- checker.py ---------------------------------------------------------------------------------- *)
Definition declares_symbol (c : opname) : bool :=
  match c with O_CONSTANT | O_LABEL | O_DLABEL => true | _ => false end.

Fixpoint check_redecl (ops : list op) (seen : list pv) : list msg :=
  match ops with
  | [] => []
  | o :: t =>
      if declares_symbol (o_cls o) then
        match o_args o with
        | s :: _ =>
            if existsb (py_eqb s) seen
            then err "symbol `{}` has already been defined" [s] LocOp :: check_redecl t seen
            else check_redecl t (s :: seen)
        | [] => check_redecl t seen
        end
      else check_redecl t seen
  end.

Definition out_of_range_z (n : Z) : bool := (n <? -32768) || (n >=? 65536).

Definition interrupt_name (o : op) (st : symtab) : option opname :=
  match o_cls o with
  | O_RTI => Some O_RTI
  | O_SWI => Some O_SWI
  | O_OPCODE =>
      match o_args o with
      | [a] =>
          let v := match a with
                   | PI z => Some z
                   | PS _ => match dict_get st a with Some sv => Some (sym_int sv) | None => None end
                   | _ => None
                   end in
          match v with
          | Some z => match disassemble z false with
                      | Ok d => match o_cls d with O_RTI => Some O_RTI | O_SWI => Some O_SWI | _ => None end
                      | Raise _ => None
                      end
          | None => None
          end
      | _ => None
      end
  | _ => None
  end.

(* get_labels: one pass computing label / data-label values *)
Record glstate := mkgl { gl_st : symtab; gl_consts : list (pv * Z); gl_pc : Z; gl_dc : Z; gl_msgs : list msg }.

Definition get_labels_step (c : csettings) (g : glstate) (o : op) : glstate :=
  let args := o_args o in
  let odc := gl_dc g in
  let keep := fun (g' : glstate) =>
    if out_of_range_z (gl_dc g') && negb (out_of_range_z odc)
    then mkgl (gl_st g') (gl_consts g') (gl_pc g') (gl_dc g')
              (gl_msgs g' ++ [err "past the end of available memory" [] LocOp])
    else g' in
  match o_cls o with
  | O_LABEL =>
      keep (match args with
            | [a] => mkgl (dict_set (gl_st g) a (SLabel (gl_pc g))) (gl_consts g) (gl_pc g) (gl_dc g) (gl_msgs g)
            | _ => g
            end)
  | O_DLABEL =>
      keep (match args with
            | [a] => mkgl (dict_set (gl_st g) a (SDataLabel (if out_of_range_z (gl_dc g) then 0 else gl_dc g)))
                          (gl_consts g) (gl_pc g) (gl_dc g) (gl_msgs g)
            | _ => g
            end)
  | O_CONSTANT =>
      keep (match args with
            | [a; PI v] => mkgl (gl_st g) (dict_set (gl_consts g) a v) (gl_pc g) (gl_dc g) (gl_msgs g)
            | [a; PS s] => match dict_get (gl_consts g) (PS s) with
                           | Some v => mkgl (gl_st g) (dict_set (gl_consts g) a v) (gl_pc g) (gl_dc g) (gl_msgs g)
                           | None => g       (* Constant("name") raises ValueError, suppressed *)
                           end
            | _ => g
            end)
  | O_INTEGER => keep (mkgl (gl_st g) (gl_consts g) (gl_pc g) (gl_dc g + 1) (gl_msgs g))
  | O_LP_STRING =>
      keep (match args with
            | [PS s] => mkgl (gl_st g) (gl_consts g) (gl_pc g) (gl_dc g + zlen s + 1) (gl_msgs g)
            | _ => g
            end)
  | O_DSKIP =>
      keep (match args with
            | [PI n] => mkgl (gl_st g) (gl_consts g) (gl_pc g) (gl_dc g + n) (gl_msgs g)
            | [a] => match dict_get (gl_consts g) a with
                     | Some n => mkgl (gl_st g) (gl_consts g) (gl_pc g) (gl_dc g + n) (gl_msgs g)
                     | None => g
                     end
            | _ => g
            end)
  | cl =>
      if strips_debug c && is_debugging_op cl then g       (* `continue`: no overflow test either *)
      else
        let npc := gl_pc g + operation_length o in
        keep (mkgl (gl_st g) (gl_consts g) npc (gl_dc g)
                   (if (65535 <? npc) && (gl_pc g <=? 65535)
                    then gl_msgs g ++ [err "past the end of the 16-bit address space" [] LocOp] else gl_msgs g))
  end.

Definition get_labels (c : csettings) (ops : list op) : symtab * list msg :=
  let g := fold_left (get_labels_step c) ops (mkgl [] [] 0 (cs_data_start c) []) in
  (gl_st g, gl_msgs g).

(* typecheck: per-operation messages, constants entering scope as they are met *)
Record tcstate := mktc { tc_st : symtab; tc_seen_code : bool; tc_msgs : list msg }.

Definition typecheck_step (c : csettings) (t : tcstate) (o : op) : tcstate :=
  let st := tc_st t in
  let assembly_only := String.eqb (cs_mode c) "assemble" in
  let m1 := op_typecheck o st assembly_only in
  let isdata := is_data_op (o_cls o) in
  let m2 := if isdata && tc_seen_code t then [err "data statement after code" [] LocOp] else [] in
  let m3 := if cs_allow_interrupts c then []
            else match interrupt_name o st with
                 | Some i => [err "hera-py does not support {}" [name_pv i] LocOp]
                 | None => []
                 end in
  let m4 := if cs_no_debug_ops c && is_debugging_op (o_cls o)
            then [err "debugging instructions disallowed with --no-debug-ops flag" [] LocOp] else [] in
  let st' :=
    match o_cls o, o_args o with
    | O_CONSTANT, [PS name; PI v] => dict_set st (PS name) (SConstant (if out_of_range_z v then 0 else v))
    | O_CONSTANT, [PS name; PS other] =>
        match dict_get st (PS other) with
        | Some (SConstant v) => dict_set st (PS name) (SConstant v)
        | _ => st
        end
    | _, _ => st
    end in
  mktc st' (tc_seen_code t || negb isdata) (tc_msgs t ++ m1 ++ m2 ++ m3 ++ m4).

Definition typecheck (c : csettings) (ops : list op) : symtab * list msg :=
  let m0 := check_redecl ops [] in
  let '(st, m1) := get_labels c ops in
  let t := fold_left (typecheck_step c) ops (mktc st false (m0 ++ m1)) in
  (tc_st t, tc_msgs t).

(* substitute_label: every symbol token becomes the integer it stands for *)
Fixpoint subst_tokens (ts : list token) (st : symtab) : res (list token) :=
  match ts with
  | [] => Ok []
  | t :: r =>
      match t_type t with
      | T_SYMBOL =>
          match dict_get st (t_val t) with
          | Some sv => r' <~ subst_tokens r st ;; Ok (tok_int (PI (sym_int sv)) :: r')
          | None => Raise KeyError
          end
      | _ => r' <~ subst_tokens r st ;; Ok (t :: r')
      end
  end.

(* a preprocessed operation and the index of the source operation it came from *)
Record cop := mkcop { c_op : op; c_orig : nat }.

Record cvstate := mkcv { cv_out : list cop; cv_pc : Z; cv_msgs : list msg }.

Definition convert_step (st : symtab) (acc : res cvstate) (io : nat * op) : res cvstate :=
  g <~ acc ;;
  let '(i, o) := io in
  let relsym :=
    is_relative_branch (o_cls o) &&
    match o_toks o with
    | t :: _ => ttype_eqb (t_type t) T_SYMBOL
    | [] => false
    end in
  (* op.tokens[0] on an empty list raises IndexError *)
  match (if is_relative_branch (o_cls o) then match o_toks o with [] => Raise IndexError | _ => Ok tt end else Ok tt) with
  | Raise e => Raise e
  | Ok _ =>
    let target :=
      if relsym then match o_toks o with
                     | t :: _ => dict_get st (t_val t)
                     | [] => None
                     end
      else None in
    match relsym, target with
    | true, None => Raise KeyError
    | true, Some (SLabel tv) | true, Some (SDataLabel tv) =>
        let jump := tv - cv_pc g in
        if (jump <? -128) || (jump >=? 128) then
          (* the error is recorded; the operation is converted as it stands *)
          new <~ convert_full o ;;
          Ok (mkcv (cv_out g ++ map (fun n => mkcop n i) new)
                   (if is_data_op (o_cls o) then cv_pc g else cv_pc g + zlen new)
                   (cv_msgs g ++ [err "label is too far for a relative branch" [] (LocTok 0)]))
        else
          let o' := mkop (o_cls o) (tok_int (PI jump) :: tl (o_toks o)) in
          new <~ convert_full o' ;;
          Ok (mkcv (cv_out g ++ map (fun n => mkcop n i) new)
                   (if is_data_op (o_cls o) then cv_pc g else cv_pc g + zlen new) (cv_msgs g))
    | _, _ =>
        ts <~ subst_tokens (o_toks o) st ;;
        let o' := mkop (o_cls o) ts in
        new <~ convert_full o' ;;
        Ok (mkcv (cv_out g ++ map (fun n => mkcop n i) new)
                 (if is_data_op (o_cls o) then cv_pc g else cv_pc g + zlen new) (cv_msgs g))
    end
  end.

Fixpoint enumerate {A} (l : list A) (i : nat) : list (nat * A) :=
  match l with [] => [] | x :: t => (i, x) :: enumerate t (S i) end.

Definition convert_ops (ops : list (nat * op)) (st : symtab) : res (list cop * list msg) :=
  g <~ fold_left (convert_step st) ops (Ok (mkcv [] 0 [])) ;;
  Ok (cv_out g, cv_msgs g).

Record cprogram := mkcprog { cp_data : list cop; cp_code : list cop; cp_symtab : symtab }.

(* check(): the whole preprocessor *)
Definition check (c : csettings) (ops : list op) : res (cprogram * list msg) :=
  let '(st, msgs) := typecheck c ops in
  if has_errors msgs then Ok (mkcprog [] [] [], msgs)
  else
    let src := enumerate ops 0 in
    let src := if strips_debug c then filter (fun io => negb (is_debugging_op (o_cls (snd io)))) src else src in
    r <~ convert_ops src st ;;
    let '(outl, m2) := r in
    let data := filter (fun co => is_data_op (o_cls (c_op co))) outl in
    let code := filter (fun co => negb (is_data_op (o_cls (c_op co)))
                                  && negb (strips_debug c && is_debugging_op (o_cls (c_op co)))) outl in
    Ok (mkcprog data code st, msgs ++ m2).
