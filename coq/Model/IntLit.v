(* IntLit.v — hand model of how an integer operand is printed (hera/op.py arg_to_string: str(value); main.py's
   --obfuscate form: "0x{:x}") and of how the parser reads an integer operand back (hera/parser.py match_value /
   match_int on the text of an INT token: a leading 0 followed by a digit means octal, otherwise Python's
   int(text, 0): decimal, 0x/0X, 0o/0O, 0b/0B; a MINUS token in front negates).  Texts are lists of code points.
   Tied to the code by the C10 correspondence. *)
From Coq Require Import ZArith List Bool.
From Hera.Model Require Import Listing Format.
Import ListNotations.
Open Scope Z_scope.

(* str(n) for -10^5 < n < 10^5 *)
Definition print_int (n : Z) : list Z := if n <? 0 then 45 :: dec (- n) else dec n.

(* "0x{:x}".format(w) *)
Definition print_opcode_word (w : Z) : list Z := 48 :: 120 :: hexmin w.

Definition is_digit (c : Z) : bool := (48 <=? c) && (c <=? 57).

(* int(text, 0) on the text of an INT token (digits, or a two-character base prefix followed by digits/letters) *)
Definition int_base0 (s : list Z) : option Z :=
  match s with
  | a :: b :: r =>
      if (a =? 48) && ((b =? 120) || (b =? 88)) then parse_base 16 r
      else if (a =? 48) && ((b =? 111) || (b =? 79)) then parse_base 8 r
      else if (a =? 48) && ((b =? 98) || (b =? 66)) then parse_base 2 r
      else parse_base 10 s
  | _ => parse_base 10 s
  end.

(* Parser.match_int: None = "invalid integer literal" *)
Definition match_int (s : list Z) : option Z :=
  match s with
  | a :: b :: _ => if (a =? 48) && is_digit b then parse_base 8 s else int_base0 s
  | _ => int_base0 s
  end.

(* Parser.match_value on an optional minus sign and the text of the INT token *)
Definition read_value (s : list Z) : option Z :=
  match s with
  | c :: r => if c =? 45 then option_map Z.opp (match_int r) else match_int s
  | [] => None
  end.

(* ---- registers: arg_to_string prints "R" + str(index); utils.register_to_index reads the text of a REGISTER
   token (r/R followed by digits, or one of the named registers, any case) ---- *)
Definition print_register (n : Z) : list Z := 82 :: dec n.

Definition lower (c : Z) : Z := if (65 <=? c) && (c <=? 90) then c + 32 else c.

(* NAMED_REGISTERS: rt, fp, sp, pc_ret, fp_alt *)
Definition named_registers : list (list Z * Z) :=
  [([114; 116], 11); ([102; 112], 14); ([115; 112], 15); ([112; 99; 95; 114; 101; 116], 13);
   ([102; 112; 95; 97; 108; 116], 12)].

Fixpoint lookup_named (t : list (list Z * Z)) (s : list Z) : option Z :=
  match t with
  | [] => None
  | (k, v) :: r => if text_eqb k s then Some v else lookup_named r s
  end.

(* None = HERAError "... is not a valid register" *)
Definition register_to_index (s : list Z) : option Z :=
  let l := map lower s in
  match lookup_named named_registers l with
  | Some v => Some v
  | None => match l with
            | 114 :: digits => match parse_base 10 digits with
                               | Some v => if v <? 16 then Some v else None
                               | None => None
                               end
            | _ => None
            end
  end.
