(* EncOp.v — flat encodings of operations for the correspondence harness (no theorem depends
   on this file). *)
From Coq Require Import ZArith List Bool String.
From Hera.Lib Require Import Py Machine Enc.
From Hera.Gen Require Import Ops Tables.
From Hera.Spec Require Import ISA EncTable.
From Hera.Model Require Import OpRep InstrOf Bitvec.
Import ListNotations.
Open Scope Z_scope.

Definition enc_ttype (t : ttype) : Z :=
  match t with T_INT => 1 | T_REGISTER => 2 | T_SYMBOL => 3 | T_STRING => 4 | T_CHAR => 5 | T_OTHER => 6 end.
Definition enc_token (t : token) : list Z := enc_ttype (t_type t) :: enc_pv (t_val t).
Definition enc_op (o : op) : list Z := enc_string (opname_text (o_cls o)) ++ enc_list enc_token (o_toks o).
Definition enc_res_op (r : res op) : list Z := enc_res enc_op r.
Definition enc_res_ops (r : res (list op)) : list Z := enc_res (enc_list enc_op) r.
Definition enc_asm (r : res (option (list Z))) : list Z :=
  enc_res (fun o => match o with None => [0] | Some b => 1 :: enc_list (fun z => [z]) b end) r.
(* spec side *)
Definition spec_word (o : op) : list Z :=
  match instr_of_op o with
  | Some i => if valid_instr i then [1; word_of i] else [0]
  | None => [0]
  end.
Definition spec_all_words : list Z := map word_of all_valid_instrs.
