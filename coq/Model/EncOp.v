(* EncOp.v — flat encodings of operations for the correspondence harness (no theorem depends
   on this file). *)
From Coq Require Import ZArith List Bool String.
From Hera.Lib Require Import Py Machine Enc.
From Hera.Gen Require Import Ops Tables.
From Hera.Spec Require Import ISA EncTable.
From Hera.Model Require Import OpRep InstrOf Bitvec.
Import ListNotations.
Open Scope Z_scope.

Definition enc_ttype (t : ttype) : Z :=
  match t with T_INT => 1 | T_REGISTER => 2 | T_SYMBOL => 3 | T_STRING => 4 | T_CHAR => 5 | T_OTHER => 6 end.
Definition enc_token (t : token) : list Z := enc_ttype (t_type t) :: enc_pv (t_val t).
Definition enc_op (o : op) : list Z := enc_string (opname_text (o_cls o)) ++ enc_list enc_token (o_toks o).
Definition enc_res_op (r : res op) : list Z := enc_res enc_op r.
Definition enc_res_ops (r : res (list op)) : list Z := enc_res (enc_list enc_op) r.
Definition enc_asm (r : res (option (list Z))) : list Z :=
  enc_res (fun o => match o with None => [0] | Some b => 1 :: enc_list (fun z => [z]) b end) r.
(* spec side *)
Definition spec_word (o : op) : list Z :=
  match instr_of_op o with
  | Some i => if valid_instr i then [1; word_of i] else [0]
  | None => [0]
  end.
Definition spec_all_words : list Z := map word_of all_valid_instrs.

(* ---- the documented meaning of a pseudo-operation, by class (for the C03 oracle) ------------ *)
From Hera.Spec Require Import PseudoSpec.
Definition regbranch_cond (c : opname) : option cond :=
  match c with
  | O_BR => Some cBR | O_BL => Some cBL | O_BGE => Some cBGE | O_BLE => Some cBLE | O_BG => Some cBG
  | O_BULE => Some cBULE | O_BUG => Some cBUG | O_BZ => Some cBZ | O_BNZ => Some cBNZ | O_BC => Some cBC
  | O_BNC => Some cBNC | O_BS => Some cBS | O_BNS => Some cBNS | O_BV => Some cBV | O_BNV => Some cBNV
  | _ => None
  end.
Definition pseudo_spec (o : op) (s : vm) : option vm :=
  match o_cls o, o_toks o with
  | O_SET, [mktok T_REGISTER (PI d); mktok T_INT (PI v)] => Some (ps_SET d v s)
  | O_SETRF, [mktok T_REGISTER (PI d); mktok T_INT (PI v)] => Some (ps_SETRF d v s)
  | O_MOVE, [mktok T_REGISTER (PI a); mktok T_REGISTER (PI b)] => Some (ps_MOVE a b s)
  | O_CMP, [mktok T_REGISTER (PI a); mktok T_REGISTER (PI b)] => Some (ps_CMP a b s)
  | O_NEG, [mktok T_REGISTER (PI d); mktok T_REGISTER (PI a)] => Some (ps_NEG d a s)
  | O_NOT, [mktok T_REGISTER (PI d); mktok T_REGISTER (PI a)] =>
      if a =? 11 then None else Some (ps_NOT d a s)
  | O_FLAGS, [mktok T_REGISTER (PI a)] => Some (ps_FLAGS a s)
  | O_CON, [] => Some (ps_CON s) | O_COFF, [] => Some (ps_COFF s)
  | O_CBON, [] => Some (ps_CBON s) | O_CCBOFF, [] => Some (ps_CCBOFF s)
  | O_HALT, [] => Some (ps_HALT s) | O_NOP, [] => Some (ps_NOP s)
  | O_CALL, [mktok T_REGISTER (PI a); mktok T_INT (PI l)] =>
      if (a =? 13) || (a =? 14) then None else Some (ps_CALL a l s)
  | c, [mktok T_INT (PI l)] =>
      match regbranch_cond c with Some k => Some (ps_BRANCH k l s) | None => None end
  | _, _ => None
  end.
Definition enc_opt_vm (o : option vm) : list Z := match o with Some s => 0 :: enc_vm s | None => [1; 11; 0] end.
