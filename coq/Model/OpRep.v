(* OpRep.v — tokens and operation objects (hera.data.Token, hera.op.AbstractOperation) as
   data: an operation is its class and its list of operand tokens; `args` is derived
   (`self.args = [a.value for a in args]`, kept in step with `tokens` by every mutation the
   checker performs).  Hand-written; the generated Gen/Convert.v and Gen/Tables.v use it. *)
From Coq Require Import ZArith List Bool String.
From Hera.Lib Require Import Py.
From Hera.Gen Require Import Ops.
Import ListNotations.
Open Scope Z_scope.

Inductive ttype := T_INT | T_REGISTER | T_SYMBOL | T_STRING | T_CHAR | T_OTHER.
Definition ttype_eqb (a b : ttype) : bool :=
  match a, b with
  | T_INT, T_INT | T_REGISTER, T_REGISTER | T_SYMBOL, T_SYMBOL | T_STRING, T_STRING
  | T_CHAR, T_CHAR | T_OTHER, T_OTHER => true
  | _, _ => false
  end.

Record token := mktok { t_type : ttype; t_val : pv }.
Record op := mkop { o_cls : opname; o_toks : list token }.

Definition tok_reg (v : pv) : token := mktok T_REGISTER v.
Definition tok_int (v : pv) : token := mktok T_INT v.
Definition tok_sym (v : pv) : token := mktok T_SYMBOL v.
Definition tok_str (v : pv) : token := mktok T_STRING v.

Definition o_args (o : op) : list pv := map t_val (o_toks o).
Definition dummy_tok : token := mktok T_OTHER PNone.

(* self.tokens[i] / self.args[i] with Python's IndexError *)
Definition tokens_at (o : op) (i : Z) : res token := py_getitem dummy_tok (o_toks o) (PI i).
Definition oargs_at (o : op) (i : Z) : res pv :=
  match tokens_at o i with Ok t => Ok (t_val t) | Raise e => Raise e end.

(* parameter kinds of the class-level P tuples *)
Inductive ptype :=
| P_REGISTER | P_REGISTER_OR_LABEL | P_STRING | P_LABEL_TYPE | P_I16_OR_LABEL | P_I8_OR_LABEL
| P_RANGE (lo hi : Z).

Definition opname_eqb (a b : opname) : bool := String.eqb (opname_text a) (opname_text b).
