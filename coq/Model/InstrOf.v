(* InstrOf.v — which specified instruction each operation class of hera-py denotes.
   Hand-written glue between the generated class list (Gen.Ops.opname) and Spec.ISA.instr. *)
From Coq Require Import ZArith List Bool String.
From Hera.Lib Require Import Py Machine.
From Hera.Gen Require Import Ops.
From Hera.Spec Require Import ISA.
Import ListNotations.
Open Scope Z_scope.

Definition instr_of (o : opname) (args : list Z) : option instr :=
  match o, args with
  | O_SETLO, [d; v] => Some (I_SETLO d v)
  | O_SETHI, [d; v] => Some (I_SETHI d v)
  | O_AND, [d; a; b] => Some (I_AND d a b)
  | O_OR, [d; a; b] => Some (I_OR d a b)
  | O_XOR, [d; a; b] => Some (I_XOR d a b)
  | O_ADD, [d; a; b] => Some (I_ADD d a b)
  | O_SUB, [d; a; b] => Some (I_SUB d a b)
  | O_MUL, [d; a; b] => Some (I_MUL d a b)
  | O_INC, [d; v] => Some (I_INC d v)
  | O_DEC, [d; v] => Some (I_DEC d v)
  | O_LSL, [d; b] => Some (I_LSL d b)
  | O_LSR, [d; b] => Some (I_LSR d b)
  | O_LSL8, [d; b] => Some (I_LSL8 d b)
  | O_LSR8, [d; b] => Some (I_LSR8 d b)
  | O_ASL, [d; b] => Some (I_ASL d b)
  | O_ASR, [d; b] => Some (I_ASR d b)
  | O_SAVEF, [d] => Some (I_SAVEF d)
  | O_RSTRF, [d] => Some (I_RSTRF d)
  | O_FON, [v] => Some (I_FON v)
  | O_FOFF, [v] => Some (I_FOFF v)
  | O_FSET5, [v] => Some (I_FSET5 v)
  | O_FSET4, [v] => Some (I_FSET4 v)
  | O_LOAD, [d; o; b] => Some (I_LOAD d o b)
  | O_STORE, [d; o; b] => Some (I_STORE d o b)
  | O_BR, [b] => Some (I_B cBR b)     | O_BRR, [o] => Some (I_BREL cBR o)
  | O_BL, [b] => Some (I_B cBL b)     | O_BLR, [o] => Some (I_BREL cBL o)
  | O_BGE, [b] => Some (I_B cBGE b)   | O_BGER, [o] => Some (I_BREL cBGE o)
  | O_BLE, [b] => Some (I_B cBLE b)   | O_BLER, [o] => Some (I_BREL cBLE o)
  | O_BG, [b] => Some (I_B cBG b)     | O_BGR, [o] => Some (I_BREL cBG o)
  | O_BULE, [b] => Some (I_B cBULE b) | O_BULER, [o] => Some (I_BREL cBULE o)
  | O_BUG, [b] => Some (I_B cBUG b)   | O_BUGR, [o] => Some (I_BREL cBUG o)
  | O_BZ, [b] => Some (I_B cBZ b)     | O_BZR, [o] => Some (I_BREL cBZ o)
  | O_BNZ, [b] => Some (I_B cBNZ b)   | O_BNZR, [o] => Some (I_BREL cBNZ o)
  | O_BC, [b] => Some (I_B cBC b)     | O_BCR, [o] => Some (I_BREL cBC o)
  | O_BNC, [b] => Some (I_B cBNC b)   | O_BNCR, [o] => Some (I_BREL cBNC o)
  | O_BS, [b] => Some (I_B cBS b)     | O_BSR, [o] => Some (I_BREL cBS o)
  | O_BNS, [b] => Some (I_B cBNS b)   | O_BNSR, [o] => Some (I_BREL cBNS o)
  | O_BV, [b] => Some (I_B cBV b)     | O_BVR, [o] => Some (I_BREL cBV o)
  | O_BNV, [b] => Some (I_B cBNV b)   | O_BNVR, [o] => Some (I_BREL cBNV o)
  | O_CALL, [a; b] => Some (I_CALL a b)
  | O_RETURN, [a; b] => Some (I_RETURN a b)
  | O_SWI, [v] => Some (I_SWI v)
  | O_RTI, [] => Some I_RTI
  | _, _ => None
  end.

(* used by the correspondence harness *)
Definition run_exec (o : opname) (args : list pv) (s : vm) : res (unit * vm) := exec o args s.
Definition run_spec (o : opname) (args : list Z) (s : vm) : res (unit * vm) :=
  match instr_of o args with
  | Some i => if valid_instr i && constrained i s then Ok (tt, step i s) else Raise (ModelError "unconstrained")
  | None => Raise (ModelError "no instruction")
  end.
