(* InstrOf.v — which specified instruction each operation class of hera-py denotes.
   Hand-written glue between the generated class list (Gen.Ops.opname) and Spec.ISA.instr. *)
From Coq Require Import ZArith List Bool String.
From Hera.Lib Require Import Py Machine.
From Hera.Gen Require Import Ops.
From Hera.Spec Require Import ISA.
Import ListNotations.
Open Scope Z_scope.

Definition instr_of (o : opname) (args : list Z) : option instr :=
  match o, args with
  | O_SETLO, [d; v] => Some (I_SETLO d v)
  | O_SETHI, [d; v] => Some (I_SETHI d v)
  | O_AND, [d; a; b] => Some (I_AND d a b)
  | O_OR, [d; a; b] => Some (I_OR d a b)
  | O_XOR, [d; a; b] => Some (I_XOR d a b)
  | O_ADD, [d; a; b] => Some (I_ADD d a b)
  | O_SUB, [d; a; b] => Some (I_SUB d a b)
  | O_MUL, [d; a; b] => Some (I_MUL d a b)
  | O_INC, [d; v] => Some (I_INC d v)
  | O_DEC, [d; v] => Some (I_DEC d v)
  | O_LSL, [d; b] => Some (I_LSL d b)
  | O_LSR, [d; b] => Some (I_LSR d b)
  | O_LSL8, [d; b] => Some (I_LSL8 d b)
  | O_LSR8, [d; b] => Some (I_LSR8 d b)
  | O_ASL, [d; b] => Some (I_ASL d b)
  | O_ASR, [d; b] => Some (I_ASR d b)
  | O_SAVEF, [d] => Some (I_SAVEF d)
  | O_RSTRF, [d] => Some (I_RSTRF d)
  | O_FON, [v] => Some (I_FON v)
  | O_FOFF, [v] => Some (I_FOFF v)
  | O_FSET5, [v] => Some (I_FSET5 v)
  | O_FSET4, [v] => Some (I_FSET4 v)
  | O_LOAD, [d; o; b] => Some (I_LOAD d o b)
  | O_STORE, [d; o; b] => Some (I_STORE d o b)
  | O_BR, [b] => Some (I_B cBR b)     | O_BRR, [o] => Some (I_BREL cBR o)
  | O_BL, [b] => Some (I_B cBL b)     | O_BLR, [o] => Some (I_BREL cBL o)
  | O_BGE, [b] => Some (I_B cBGE b)   | O_BGER, [o] => Some (I_BREL cBGE o)
  | O_BLE, [b] => Some (I_B cBLE b)   | O_BLER, [o] => Some (I_BREL cBLE o)
  | O_BG, [b] => Some (I_B cBG b)     | O_BGR, [o] => Some (I_BREL cBG o)
  | O_BULE, [b] => Some (I_B cBULE b) | O_BULER, [o] => Some (I_BREL cBULE o)
  | O_BUG, [b] => Some (I_B cBUG b)   | O_BUGR, [o] => Some (I_BREL cBUG o)
  | O_BZ, [b] => Some (I_B cBZ b)     | O_BZR, [o] => Some (I_BREL cBZ o)
  | O_BNZ, [b] => Some (I_B cBNZ b)   | O_BNZR, [o] => Some (I_BREL cBNZ o)
  | O_BC, [b] => Some (I_B cBC b)     | O_BCR, [o] => Some (I_BREL cBC o)
  | O_BNC, [b] => Some (I_B cBNC b)   | O_BNCR, [o] => Some (I_BREL cBNC o)
  | O_BS, [b] => Some (I_B cBS b)     | O_BSR, [o] => Some (I_BREL cBS o)
  | O_BNS, [b] => Some (I_B cBNS b)   | O_BNSR, [o] => Some (I_BREL cBNS o)
  | O_BV, [b] => Some (I_B cBV b)     | O_BVR, [o] => Some (I_BREL cBV o)
  | O_BNV, [b] => Some (I_B cBNV b)   | O_BNVR, [o] => Some (I_BREL cBNV o)
  | O_CALL, [a; b] => Some (I_CALL a b)
  | O_RETURN, [a; b] => Some (I_RETURN a b)
  | O_SWI, [v] => Some (I_SWI v)
  | O_RTI, [] => Some I_RTI
  | _, _ => None
  end.

(* used by the correspondence harness *)
Definition run_exec (o : opname) (args : list pv) (s : vm) : res (unit * vm) := exec o args s.
Definition run_spec (o : opname) (args : list Z) (s : vm) : res (unit * vm) :=
  match instr_of o args with
  | Some i => if valid_instr i && constrained i s then Ok (tt, step i s) else Raise (ModelError "unconstrained")
  | None => Raise (ModelError "no instruction")
  end.

(* ---- the operation object that denotes a specified instruction (inverse of instr_of) ------ *)
From Hera.Model Require Import OpRep.

Definition cond_regbranch (c : cond) : opname :=
  match c with
  | cBR => O_BR | cBL => O_BL | cBGE => O_BGE | cBLE => O_BLE | cBG => O_BG | cBULE => O_BULE
  | cBUG => O_BUG | cBZ => O_BZ | cBNZ => O_BNZ | cBC => O_BC | cBNC => O_BNC | cBS => O_BS
  | cBNS => O_BNS | cBV => O_BV | cBNV => O_BNV
  end.
Definition cond_relbranch (c : cond) : opname :=
  match c with
  | cBR => O_BRR | cBL => O_BLR | cBGE => O_BGER | cBLE => O_BLER | cBG => O_BGR | cBULE => O_BULER
  | cBUG => O_BUGR | cBZ => O_BZR | cBNZ => O_BNZR | cBC => O_BCR | cBNC => O_BNCR | cBS => O_BSR
  | cBNS => O_BNSR | cBV => O_BVR | cBNV => O_BNVR
  end.

Definition R (z : Z) : token := tok_reg (PI z).
Definition N (z : Z) : token := tok_int (PI z).

Definition op_of_instr (i : instr) : op :=
  match i with
  | I_SETLO d v => mkop O_SETLO [R d; N v] | I_SETHI d v => mkop O_SETHI [R d; N v]
  | I_AND d a b => mkop O_AND [R d; R a; R b] | I_OR d a b => mkop O_OR [R d; R a; R b]
  | I_XOR d a b => mkop O_XOR [R d; R a; R b] | I_ADD d a b => mkop O_ADD [R d; R a; R b]
  | I_SUB d a b => mkop O_SUB [R d; R a; R b] | I_MUL d a b => mkop O_MUL [R d; R a; R b]
  | I_INC d v => mkop O_INC [R d; N v] | I_DEC d v => mkop O_DEC [R d; N v]
  | I_LSL d b => mkop O_LSL [R d; R b] | I_LSR d b => mkop O_LSR [R d; R b]
  | I_LSL8 d b => mkop O_LSL8 [R d; R b] | I_LSR8 d b => mkop O_LSR8 [R d; R b]
  | I_ASL d b => mkop O_ASL [R d; R b] | I_ASR d b => mkop O_ASR [R d; R b]
  | I_SAVEF d => mkop O_SAVEF [R d] | I_RSTRF d => mkop O_RSTRF [R d]
  | I_FON v => mkop O_FON [N v] | I_FOFF v => mkop O_FOFF [N v]
  | I_FSET5 v => mkop O_FSET5 [N v] | I_FSET4 v => mkop O_FSET4 [N v]
  | I_LOAD d o b => mkop O_LOAD [R d; N o; R b] | I_STORE d o b => mkop O_STORE [R d; N o; R b]
  | I_B c b => mkop (cond_regbranch c) [R b]
  | I_BREL c o => mkop (cond_relbranch c) [N o]
  | I_CALL a b => mkop O_CALL [R a; R b] | I_RETURN a b => mkop O_RETURN [R a; R b]
  | I_SWI v => mkop O_SWI [N v] | I_RTI => mkop O_RTI []
  end.

Definition zs_of_args (l : list pv) : option (list Z) :=
  (fix go l := match l with
               | [] => Some []
               | PI z :: t => match go t with Some r => Some (z :: r) | None => None end
               | _ => None
               end) l.

Definition instr_of_op (o : op) : option instr :=
  match zs_of_args (o_args o) with
  | Some zs => instr_of (o_cls o) zs
  | None => None
  end.

(* an injective key, for decidable comparison of instructions *)
Definition cond_tag (c : cond) : Z :=
  match c with
  | cBR => 0 | cBL => 1 | cBGE => 2 | cBLE => 3 | cBG => 4 | cBULE => 5 | cBUG => 6 | cBZ => 7
  | cBNZ => 8 | cBC => 9 | cBNC => 10 | cBS => 11 | cBNS => 12 | cBV => 13 | cBNV => 14
  end.
Definition instr_key (i : instr) : list Z :=
  match i with
  | I_SETLO d v => [1; d; v] | I_SETHI d v => [2; d; v]
  | I_AND d a b => [3; d; a; b] | I_OR d a b => [4; d; a; b] | I_XOR d a b => [5; d; a; b]
  | I_ADD d a b => [6; d; a; b] | I_SUB d a b => [7; d; a; b] | I_MUL d a b => [8; d; a; b]
  | I_INC d v => [9; d; v] | I_DEC d v => [10; d; v]
  | I_LSL d b => [11; d; b] | I_LSR d b => [12; d; b] | I_LSL8 d b => [13; d; b]
  | I_LSR8 d b => [14; d; b] | I_ASL d b => [15; d; b] | I_ASR d b => [16; d; b]
  | I_SAVEF d => [17; d] | I_RSTRF d => [18; d]
  | I_FON v => [19; v] | I_FOFF v => [20; v] | I_FSET5 v => [21; v] | I_FSET4 v => [22; v]
  | I_LOAD d o b => [23; d; o; b] | I_STORE d o b => [24; d; o; b]
  | I_B c b => [25; cond_tag c; b] | I_BREL c o => [26; cond_tag c; o]
  | I_CALL a b => [27; a; b] | I_RETURN a b => [28; a; b]
  | I_SWI v => [29; v] | I_RTI => [30]
  end.
Definition key_eqb (a b : list Z) : bool := zlist_eqb a b.
