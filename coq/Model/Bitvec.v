(* Bitvec.v — hand-written model of hera/op.py's bit-pattern machinery:
   substitute_bitvector / substitute_half_a_bitvector, match_bitvector, the assemble and
   disassemble methods (default + the overrides of INC, DEC, OPCODE, INTEGER, DSKIP,
   LP_STRING, DebuggingOperation) and the module-level disassemble().  The patterns, the
   class order and the list of classes that override each method come from Gen/Tables.v
   (regenerated).  Tied to the code by the C05 correspondence (complete enumeration in the
   thorough tier). *)
From Coq Require Import ZArith List Bool String Ascii.
From Hera.Lib Require Import Py.
From Hera.Gen Require Import Utils Ops Tables.
From Hera.Model Require Import OpRep.
Import ListNotations.
Open Scope Z_scope.
Open Scope r_scope.

Inductive pbit := B0 | B1 | BV (idx : nat) (reg : bool) | BBad.

Definition pbit_of_ascii (a : ascii) : option pbit :=
  let n := Z.of_nat (nat_of_ascii a) in
  if n =? 32 then None                                  (* spaces are removed *)
  else if n =? 48 then Some B0
  else if n =? 49 then Some B1
  else if (97 <=? n) && (n <=? 122) then Some (BV (Z.to_nat (n - 97)) false)
  else if (65 <=? n) && (n <=? 90) then Some (BV (Z.to_nat (n - 65)) true)
  else Some BBad.

Fixpoint parse_pattern (s : string) : list pbit :=
  match s with
  | EmptyString => []
  | String a t => match pbit_of_ascii a with Some b => b :: parse_pattern t | None => parse_pattern t end
  end.

Definition pattern_wf (p : list pbit) : bool :=
  (Nat.eqb (List.length p) 16 || Nat.eqb (List.length p) 0)
  && forallb (fun b => match b with BBad => false | _ => true end) p.

(* ---- substitute_bitvector: bits are taken from the right end of the pattern, each
   letter consuming its argument from the least significant bit upwards ------------------ *)
Fixpoint enc_bits (pat_rev : list pbit) (args : list Z) (k : Z) : res Z :=
  match pat_rev with
  | [] => Ok 0
  | B0 :: t => enc_bits t args (k + 1)
  | B1 :: t => r <~ enc_bits t args (k + 1) ;; Ok (2 ^ k + r)
  | BV i _ :: t =>
      match nth_error args i with
      | None => Raise IndexError
      | Some a => r <~ enc_bits t (list_set args i (a / 2)) (k + 1) ;; Ok ((a mod 2) * 2 ^ k + r)
      end
  | BBad :: _ => Raise IndexError
  end.

Definition substitute_bitvector (pattern : string) (args : list Z) : res Z :=
  enc_bits (rev (parse_pattern pattern)) args 0.

(* ---- match_bitvector, for 0 <= v < 2**16 ------------------------------------------------ *)
Fixpoint bits_msb (n : nat) (v : Z) : list bool :=        (* n bits of v, most significant first *)
  match n with
  | O => []
  | S m => Z.testbit v (Z.of_nat m) :: bits_msb m v
  end.

Fixpoint init_args (p : list pbit) (args : list (bool * Z)) : list (bool * Z) :=
  match p with
  | [] => args
  | BV i reg :: t =>
      let args1 := args ++ repeat (false, 0) (S i - List.length args) in
      init_args t (list_set args1 i (reg, 0))
  | _ :: t => init_args t args
  end.

Fixpoint fill_args (p : list pbit) (bits : list bool) (args : list (bool * Z)) : option (list (bool * Z)) :=
  match p, bits with
  | B0 :: t, b :: bs => if b then None else fill_args t bs args
  | B1 :: t, b :: bs => if b then fill_args t bs args else None
  | BV i _ :: t, b :: bs =>
      match nth_error args i with
      | Some (r, x) => fill_args t bs (list_set args i (r, 2 * x + Z.b2z b))
      | None => None
      end
  | BBad :: _, _ => None
  | _, _ => Some args          (* zip stops at the shorter of the two *)
  end.

Definition match_parsed (p : list pbit) (v : Z) : option (list token) :=
  match fill_args p (bits_msb 16 v) (init_args p []) with
  | Some args => Some (map (fun a : bool * Z => if fst a then tok_reg (PI (snd a)) else tok_int (PI (snd a))) args)
  | None => None
  end.
Definition match_bitvector (pattern : string) (v : Z) : option (list token) :=
  match_parsed (parse_pattern pattern) v.

(* cls.disassemble(m...): INC and DEC store value-1 in their field *)
Definition class_disassemble (c : opname) (m : list token) : res op :=
  match c, m with
  | O_INC, [a0; a1] | O_DEC, [a0; a1] => Ok (mkop c [a0; tok_int (py_add (t_val a1) (PI 1))])
  | O_INC, _ | O_DEC, _ => Raise TypeError
  | _, _ => Ok (mkop c m)
  end.

(* the classes disassemble() tries, in the order of name_to_class.values(), with their
   patterns parsed (and the initial argument list built) once *)
Definition decode_table : list (opname * list pbit * list (bool * Z)) :=
  flat_map (fun kc : string * opname =>
              if String.eqb (BITV_of (snd kc)) "" then []
              else let p := parse_pattern (BITV_of (snd kc)) in [(snd kc, p, init_args p [])])
           name_to_class.

Definition tokens_of_args (args : list (bool * Z)) : list token :=
  map (fun a : bool * Z => if fst a then tok_reg (PI (snd a)) else tok_int (PI (snd a))) args.

Fixpoint first_match (tbl : list (opname * list pbit * list (bool * Z))) (bits : list bool)
  : option (opname * list token) :=
  match tbl with
  | [] => None
  | (c, p, ini) :: t =>
      match fill_args p bits ini with
      | Some args => Some (c, tokens_of_args args)
      | None => first_match t bits
      end
  end.

Definition not_an_instruction : string := "bit pattern does not correspond to HERA instruction".

Definition disassemble_with (tbl : list (opname * list pbit * list (bool * Z))) (v : Z) (allow_unknown : bool) : res op :=
  if (0 <=? v) && (v <? 65536) then
    match first_match tbl (bits_msb 16 v) with
    | Some (c, m) => class_disassemble c m
    | None => if allow_unknown then Ok (mkop O_OPCODE [tok_int (PI v)])
              else Raise (HERAError not_an_instruction)
    end
  else Raise (HERAError "bit pattern does not fit in 16 bits").

Definition disassemble (v : Z) (allow_unknown : bool) : res op := disassemble_with decode_table v allow_unknown.

(* ---- assemble -------------------------------------------------------------------------------- *)
Definition int_args (o : op) : res (list Z) :=
  (fix go (l : list pv) : res (list Z) :=
     match l with
     | [] => Ok []
     | PI z :: t => r <~ go t ;; Ok (z :: r)
     | PB b :: t => r <~ go t ;; Ok (Z.b2z b :: r)
     | _ :: _ => Raise TypeError
     end) (o_args o).

Definition two_bytes (w : Z) : list Z := [w / 256; w mod 256].

Fixpoint lp_bytes (s : list Z) : list Z :=
  match s with [] => [] | c :: t => (c / 256) mod 256 :: c mod 256 :: lp_bytes t end.

(* None = the operation emits no code (debugging operations); bytes otherwise *)
Definition assemble (o : op) : res (option (list Z)) :=
  let c := o_cls o in
  if is_debugging_op c then Ok None
  else match c, o_args o with
       | O_INC, [PI d; PI v] | O_DEC, [PI d; PI v] =>
           w <~ substitute_bitvector (BITV_of c) [d; v - 1] ;; Ok (Some (two_bytes w))
       | O_INC, _ | O_DEC, _ => Raise TypeError
       | O_OPCODE, PI v :: _ =>
           if (0 <=? v / 256) && (v / 256 <? 256) then Ok (Some [v / 256; v mod 256]) else Raise ValueError
       | O_OPCODE, [] => Raise IndexError
       | O_OPCODE, _ => Raise TypeError
       | O_INTEGER, PI v :: _ => u <~ to_u16 (PI v) ;; Ok (Some (two_bytes (as_int u)))
       | O_INTEGER, [] => Raise IndexError
       | O_INTEGER, _ => Raise TypeError
       | O_DSKIP, PI n :: _ => Ok (Some (repeat 0 (Z.to_nat (2 * n))))
       | O_DSKIP, [] => Raise IndexError
       | O_DSKIP, _ => Raise TypeError
       | O_LP_STRING, PS s :: _ => Ok (Some ((zlen s / 256) mod 256 :: zlen s mod 256 :: lp_bytes s))
       | O_LP_STRING, [] => Raise IndexError
       | O_LP_STRING, _ => Raise TypeError
       | _, _ => a <~ int_args o ;; w <~ substitute_bitvector (BITV_of c) a ;; Ok (Some (two_bytes w))
       end.

(* the classes whose own code the model above transcribes; compared with Gen by a theorem *)
Definition modelled_assemble_definers : list string :=
  ["AbstractOperation"; "DEC"; "DSKIP"; "DebuggingOperation"; "INC"; "INTEGER"; "LP_STRING"; "OPCODE"]%string.
Definition modelled_disassemble_definers : list string := ["AbstractOperation"; "DEC"; "INC"]%string.

(* ---- convert, completed with OPCODE ------------------------------------------------------------ *)
From Hera.Gen Require Import Convert.
Definition convert_full (o : op) : res (list op) :=
  match o_cls o with
  | O_OPCODE =>
      match o_args o with
      | PI v :: _ => r <~ disassemble v true ;; Ok [r]
      | [] => Raise IndexError
      | _ => Raise TypeError
      end
  | _ => convert o
  end.
