(* MiniParser.v — hand-written model of hera/debugger/miniparser.py (the Pratt parser of the
   debugger's expression language) and of Shell.evaluate_node.  Tokens come from the real lexer
   (the harness lexes with hera.lexer and converts integer literals with int(text, 0)). *)
From Coq Require Import ZArith List Bool String.
From Hera.Lib Require Import Py Machine.
From Hera.Spec Require Import ISA.
Import ListNotations.
Open Scope Z_scope.

Inductive binop := OpAdd | OpSub | OpMul | OpDiv.
Inductive etok :=
| E_INT (v : option Z)        (* None: int(text, base=0) raises ValueError *)
| E_REG (r : option Z)        (* None: register_to_index raises HERAError *)
| E_SYM (name : list Z)
| E_OP (o : binop)            (* PLUS MINUS ASTERISK SLASH *)
| E_AT | E_LP | E_RP | E_COMMA | E_FMT (s : list Z) | E_EOF | E_OTHER.

Inductive expr :=
| EInt (v : Z) | EReg (r : Z) | ESym (name : list Z)
| EMem (a : expr) | ENeg (a : expr) | EBin (o : binop) (l r : expr).

Inductive pres := POk (e : expr) (rest : list etok) | PSyntaxError | PFuel.

(* PREC_MAP = {PLUS: 1, MINUS: 1, SLASH: 2, ASTERISK: 2}; PREC_LOWEST = 0; PREC_PREFIX = 3.
   The numbers are passed in from the regenerated table by the harness; here they are parameters. *)
Definition prec_of (o : binop) : Z := match o with OpAdd | OpSub => 1 | OpMul | OpDiv => 2 end.
Definition PREC_PREFIX : Z := 3.

(* the lexer yields EOF forever at the end of the text *)
Definition cur (ts : list etok) : etok := match ts with t :: _ => t | [] => E_EOF end.
Definition adv (ts : list etok) : list etok := match ts with _ :: r => r | [] => [] end.

(* the `while infix_tkn.type in PREC_MAP and precedence < PREC_MAP[...]` loop; `rec` is match_expr *)
Definition infix_loop (rec : Z -> list etok -> pres) (prec : Z) : nat -> expr -> list etok -> pres :=
  fix loop (n : nat) (lhs : expr) (ts : list etok) : pres :=
    match n with
    | O => PFuel
    | S m =>
        match cur ts with
        | E_OP o =>
            if prec <? prec_of o then
              match rec (prec_of o) (adv ts) with
              | POk rhs rest => loop m (EBin o lhs rhs) rest
              | other => other
              end
            else POk lhs ts
        | _ => POk lhs ts
        end
    end.

Fixpoint match_expr (fuel : nat) (prec : Z) (ts : list etok) : pres :=
  match fuel with
  | O => PFuel
  | S f =>
      let continue_with := infix_loop (match_expr f) prec f in
      match cur ts with
      | E_AT =>
          match match_expr f PREC_PREFIX (adv ts) with
          | POk a rest => continue_with (EMem a) rest
          | other => other
          end
      | E_INT (Some v) => continue_with (EInt v) (adv ts)
      | E_INT None => PSyntaxError
      | E_OP OpSub =>
          match match_expr f PREC_PREFIX (adv ts) with
          | POk a rest => continue_with (ENeg a) rest
          | other => other
          end
      | E_REG (Some r) => continue_with (EReg r) (adv ts)
      | E_REG None => PSyntaxError
      | E_SYM s => continue_with (ESym s) (adv ts)
      | E_LP =>
          match match_expr f 0 (adv ts) with
          | POk e rest =>
              match cur rest with
              | E_RP => continue_with e (adv rest)
              | _ => PSyntaxError
              end
          | other => other
          end
      | _ => PSyntaxError
      end
  end.

(* match_exprlist + parse: FORMAT? expr (COMMA expr)* EOF *)
Inductive plres := PLOk (fmt : list Z) (es : list expr) | PLSyntaxError | PLFuel.
Fixpoint match_seq (fuel : nat) (ts : list etok) (acc : list expr) : pres * list expr :=
  match fuel with
  | O => (PFuel, acc)
  | S f =>
      match match_expr fuel 0 ts with
      | POk e rest =>
          match cur rest with
          | E_COMMA => match_seq f (adv rest) (acc ++ [e])
          | _ => (POk e rest, acc ++ [e])
          end
      | other => (other, acc)
      end
  end.
Definition parse_line (fuel : nat) (ts : list etok) : plres :=
  let '(fmt, ts1) := match cur ts with E_FMT s => (s, adv ts) | _ => ([], ts) end in
  match match_seq fuel ts1 [] with
  | (POk _ rest, es) => match cur rest with E_EOF => PLOk fmt es | _ => PLSyntaxError end
  | (PSyntaxError, _) => PLSyntaxError
  | (PFuel, _) => PLFuel
  end.

(* ---- Shell.evaluate_node ------------------------------------------------------------------------------ *)
Definition oor (n : Z) : bool := (n <? -32768) || (n >=? 65536).
Definition lower_code (c : Z) : Z := if (65 <=? c) && (c <=? 90) then c + 32 else c.
Definition is_pc (s : list Z) : bool := zlist_eqb (map lower_code s) [112; 99].

Fixpoint sym_lookup (st : list (list Z * Z)) (s : list Z) : option Z :=
  match st with
  | [] => None
  | (k, v) :: t => if zlist_eqb k s then Some v else sym_lookup t s
  end.

(* None = HERAError (reported as "Eval error: ...") *)
Fixpoint eval (s : vm) (st : list (list Z * Z)) (e : expr) : option Z :=
  match e with
  | EInt v => if oor v then None else Some v
  | EReg r => Some (getreg s r)
  | ESym name => if is_pc name then Some (pc s) else sym_lookup st name
  | EMem a =>
      match eval s st a with
      | Some addr => Some (mem_read (mem s) (addr mod 65536))
      | None => None
      end
  | ENeg a =>
      match eval s st a with
      | Some x => if oor (- x) then None else Some (- x)
      | None => None
      end
  | EBin o l r =>
      match eval s st l, eval s st r with
      | Some x, Some y =>
          match o with
          | OpDiv => if y =? 0 then None else if oor (x / y) then None else Some (x / y)
          | OpAdd => if oor (x + y) then None else Some (x + y)
          | OpSub => if oor (x - y) then None else Some (x - y)
          | OpMul => if oor (x * y) then None else Some (x * y)
          end
      | _, _ => None
      end
  end.
