(* ExprEnc.v — flat encodings of parse results for the miniparser correspondence. *)
From Coq Require Import ZArith List.
From Hera.Model Require Import MiniParser.
Import ListNotations.
Open Scope Z_scope.

Definition op_code (o : binop) : Z := match o with OpAdd => 0 | OpSub => 1 | OpMul => 2 | OpDiv => 3 end.
Fixpoint enc_expr (e : expr) : list Z :=
  match e with
  | EInt v => [0; v]
  | EReg r => [1; r]
  | ESym s => 2 :: Z.of_nat (List.length s) :: s
  | EMem a => 3 :: enc_expr a
  | ENeg a => 4 :: enc_expr a
  | EBin o l r => 5 :: op_code o :: enc_expr l ++ enc_expr r
  end.
Definition enc_plres (r : plres) : list Z :=
  match r with
  | PLOk fmt es => 0 :: Z.of_nat (List.length fmt) :: fmt ++ Z.of_nat (List.length es) :: flat_map enc_expr es
  | PLSyntaxError => [1]
  | PLFuel => [2]
  end.
Definition enc_eval (r : option Z) : list Z := match r with Some v => [0; v] | None => [1] end.
