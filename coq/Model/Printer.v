(* Printer.v — hand-written model of hera/op.py string_literal (how `hera preprocess` prints a
   string operand).  Tied to the code by the C10 correspondence. *)
From Coq Require Import ZArith List Bool.
Import ListNotations.
Open Scope Z_scope.

Definition hexdigit (n : Z) : Z := if n <? 10 then 48 + n else 87 + n.          (* lower-case, as "{:02x}" *)
Definition lit_char (c : Z) : list Z :=
  if c =? 34 then [92; 34]
  else if c =? 92 then [92; 92]
  else if c =? 10 then [92; 110]
  else if c =? 9 then [92; 116]
  else if (32 <=? c) && (c <? 127) then [c]
  else if c <? 256 then [92; 120; hexdigit (c / 16); hexdigit (c mod 16)]
  else if c <? 512 then [92; 48 + c / 64; 48 + (c / 8) mod 8; 48 + c mod 8]
  else [c].
Definition string_literal (v : list Z) : list Z := 34 :: flat_map lit_char v ++ [34].
