(* Cli.v — hand-written model of hera/main.py parse_args: the flag loop, the informational flags,
   the positional argument, the mode and the compatibility table.  FLAGS and PICKY_FLAGS come from
   Gen/CliTables.v (regenerated).  Whether an --init string is well-formed is a parameter (the
   real parse_init_string, whose accepted values are C02's obligation).
   Tied to the code by the C18 correspondence (enumerated argument vectors). *)
From Coq Require Import ZArith List Bool String Ascii.
From Hera.Gen Require Import CliTables.
Import ListNotations.
Open Scope string_scope.

Inductive fval := FTrue | FInt (n : Z) | FStr (s : string).
Definition flagmap := list (string * fval).          (* insertion-ordered dict *)

Fixpoint fset (k : string) (v : fval) (m : flagmap) : flagmap :=
  match m with
  | [] => [(k, v)]
  | (k', v') :: r => if String.eqb k k' then (k, v) :: r else (k', v') :: fset k v r
  end.
Definition fget (k : string) (m : flagmap) : option fval :=
  match find (fun p => String.eqb k (fst p)) m with Some p => Some (snd p) | None => None end.
Definition fhas (k : string) (m : flagmap) : bool := match fget k m with Some _ => true | None => false end.
Definition in_list (k : string) (l : list string) : bool := existsb (String.eqb k) l.

Definition short_to_long (a : string) : string :=
  if String.eqb a "-h" then "--help" else if String.eqb a "-v" then "--version" else if String.eqb a "-q" then "--quiet" else a.

Definition is_dec (c : ascii) : bool := let n := nat_of_ascii c in (Nat.leb 48 n) && (Nat.leb n 57).
Fixpoint all_dec (s : string) : bool := match s with EmptyString => true | String c r => is_dec c && all_dec r end.
Fixpoint dec_value (acc : Z) (s : string) : Z :=
  match s with EmptyString => acc | String c r => dec_value (10 * acc + Z.of_nat (nat_of_ascii c - 48)) r end.
(* parse_throttle: None = ill-formed (the digit-count limit of int() is not modelled: strings of
   more than 4300 digits are outside the correspondence) *)
Definition parse_throttle (s : string) : option Z :=
  match s with EmptyString => None | _ => if all_dec s then Some (dec_value 0 s) else None end.

Definition drop (n : nat) (s : string) : string := substring n (String.length s - n) s.

Inductive outcome :=
| Usage (why : string)            (* exit status 1, message on stderr *)
| Info (what : string)            (* --help / --version / --credits alone: exit status 0 *)
| Run (mode : string) (path : string) (flags : flagmap).

Section Args.
  Variable init_valid : string -> bool.

  (* the while loop; [after] = a bare -- has been seen *)
  Fixpoint scan (argv : list string) (after : bool) (flags : flagmap) (pos : list string)
    : string + (flagmap * list string) :=
    match argv with
    | [] => inr (flags, pos)
    | a :: r =>
        let l := short_to_long a in
        if String.eqb l "--" then scan r true flags pos
        else if negb after && in_list l CLI_FLAGS then
          if String.eqb l "--throttle" then
            match r with
            | v :: r' => match parse_throttle v with
                         | Some n => scan r' after (fset l (FInt n) flags) pos
                         | None => inl "--throttle takes one integer argument."
                         end
            | [] => inl "--throttle takes one integer argument."
            end
          else if String.eqb l "--init" then
            match r with
            | v :: r' => scan r' after (fset l (FStr v) flags) pos
            | [] => inl "--init takes one argument."
            end
          else scan r after (fset l FTrue flags) pos
        else if negb after && prefix "--throttle" l then
          match (if prefix "--throttle=" l then parse_throttle (drop 11 l) else None) with
          | Some n => scan r after (fset "--throttle" (FInt n) flags) pos
          | None => inl "--throttle takes one integer argument."
          end
        else if negb after && prefix "--init=" l then scan r after (fset "--init" (FStr (drop 7 l)) flags) pos
        else if negb after && prefix "-" l && Nat.ltb 1 (String.length l) then inl ("Unrecognized flag: " ++ a)
        else scan r after flags (pos ++ [a])
    end.

  Definition mode_of (flags : flagmap) : string :=
    if fhas "debug" flags then "debug" else if fhas "assemble" flags then "assemble"
    else if fhas "preprocess" flags then "preprocess" else if fhas "disassemble" flags then "disassemble" else "".

  Definition info_flag (name : string) (flags : flagmap) (pos : list string) : option outcome :=
    if fhas name flags then
      Some (if Nat.eqb (List.length flags) 1 && match pos with [] => true | _ => false end then Info name
            else Usage (name ++ " may not be combined with other flags or commands."))
    else None.

  Definition parse_args (argv : list string) : outcome :=
    match scan argv false [] [] with
    | inl why => Usage why
    | inr (flags, pos) =>
        match info_flag "--help" flags pos with Some o => o | None =>
        match info_flag "--version" flags pos with Some o => o | None =>
        match info_flag "--credits" flags pos with Some o => o | None =>
        match pos with
        | [] => Usage "No file path supplied."
        | _ :: _ :: _ => Usage "Too many file paths supplied."
        | [path] =>
            let mode := mode_of flags in
            match find (fun pf => fhas (fst pf) flags && negb (in_list mode (snd pf))) CLI_PICKY_FLAGS with
            | Some pf => Usage (fst pf ++ " is not compatible with the chosen mode.")
            | None =>
                if fhas "--quiet" flags && fhas "--verbose" flags then Usage "--quiet and --verbose are incompatible."
                else match fget "--init" flags with
                     | Some (FStr s) => if init_valid s then Run mode path flags else Usage "Invalid syntax for --init argument."
                     | _ => Run mode path flags
                     end
            end
        end end end end
    end.
End Args.

(* ---- encoding for the correspondence --------------------------------------------------------------------- *)
Open Scope Z_scope.
Definition enc_str (s : string) : list Z :=
  Z.of_nat (String.length s) :: map (fun c => Z.of_nat (nat_of_ascii c)) (list_ascii_of_string s).
Definition enc_fval (v : fval) : list Z :=
  match v with FTrue => [0] | FInt n => [1; n] | FStr s => 2 :: enc_str s end.
Definition enc_outcome (o : outcome) : list Z :=
  match o with
  | Usage _ => [0]
  | Info w => 1 :: enc_str w
  | Run m p f => 2 :: (enc_str m ++ enc_str p ++ [Z.of_nat (List.length f)])%list ++
                   flat_map (fun kv : string * fval => (enc_str (fst kv) ++ enc_fval (snd kv))%list) f
  end.
