(* Debugger.v — hand-written model of hera/debugger/debugger.py (Debugger: next, real_ops,
   finished, at_breakpoint, reset, save) and of the stepping commands of
   hera/debugger/shell.py (next [n], step, continue, undo, restart, goto, break, clear, on, off).
   Values are immutable here; that the Python objects involved are really duplicated by
   VirtualMachine.copy() / Debugger.save() is a separate obligation on tables regenerated from
   the source (Gen/Tables.v: VM_COPIED_ATTRS etc., see Proofs/C13_Undo.v).
   Tied to the code by the debugger correspondence (tools/props/dbgcases.py). *)
From Coq Require Import ZArith List Bool String.
From Hera.Lib Require Import Py Machine.
From Hera.Gen Require Import Utils Vm Ops.
From Hera.Model Require Import Run.
Import ListNotations.
Open Scope Z_scope.
Open Scope m_scope.

(* a real operation of the preprocessed program, the index of the source operation it came from
   (`op.original`), and that source operation's class *)
Record dop := mkdop { dp_rop : rop; dp_orig : nat; dp_src : opname }.
Definition dcode := list dop.
Definition rops (code : dcode) : list rop := map dp_rop code.

Record dstate := mkd {
  d_vm : vm;
  d_bps : list Z;        (* instruction numbers carrying a breakpoint, in insertion order *)
  d_calls : Z;           (* CALLs executed minus RETURNs executed *)
}.

Definition dummy_dop : dop := mkdop dummy_rop 0 O_BRR.

Definition d_finished (code : dcode) (d : dstate) : bool :=
  truthy (halted (d_vm d)) || negb ((0 <=? pc (d_vm d)) && (pc (d_vm d) <? zlen code)).
Definition d_at_breakpoint (code : dcode) (d : dstate) : bool :=
  negb (d_finished code d) && existsb (Z.eqb (pc (d_vm d))) (d_bps d).

(* real_ops(): the operations from the current one on that belong to the same source operation *)
Fixpoint same_orig_prefix (o : nat) (l : dcode) : dcode :=
  match l with
  | x :: t => if Nat.eqb (dp_orig x) o then x :: same_orig_prefix o t else []
  | [] => []
  end.
Definition slice_at (code : dcode) (pc : Z) : dcode :=
  match skipn (Z.to_nat pc) code with
  | x :: t => x :: same_orig_prefix (dp_orig x) t
  | [] => []
  end.

Definition opname_is (a b : opname) : bool := String.eqb (opname_text a) (opname_text b).

(* `for real_op in self.real_ops(): count CALL/RETURN; vm.location = loc; real_op.execute(vm)` *)
Fixpoint exec_slice (sl : dcode) (d : dstate) : res dstate :=
  match sl with
  | [] => Ok d
  | x :: t =>
      let calls := if opname_is (r_op (dp_rop x)) O_CALL then d_calls d + 1
                   else if opname_is (r_op (dp_rop x)) O_RETURN then d_calls d - 1
                   else d_calls d in
      match (set_location (r_loc (dp_rop x)) ;;; exec (r_op (dp_rop x)) (r_args (dp_rop x))) (d_vm d) with
      | Ok (_, s') => exec_slice t (mkd s' (d_bps d) calls)
      | Raise e => Raise e
      end
  end.

(* Debugger.next(step=True) *)
Definition next_into (code : dcode) (d : dstate) : res dstate :=
  if d_finished code d then Ok d else exec_slice (slice_at code (pc (d_vm d))) d.

(* the `while` of Debugger.next(step=False) on a CALL *)
Fixpoint next_over_loop (fuel : nat) (code : dcode) (calls0 : Z) (d : dstate) : res dstate :=
  match fuel with
  | O => Raise OutOfFuel
  | S f =>
      if negb (d_finished code d) && negb (d_at_breakpoint code d) && (calls0 <? d_calls d) then
        match next_into code d with
        | Ok d' => next_over_loop f code calls0 d'
        | Raise e => Raise e
        end
      else Ok d
  end.

(* Debugger.next(step=False) *)
Definition next_over (fuel : nat) (code : dcode) (d : dstate) : res dstate :=
  if d_finished code d then Ok d
  else if opname_is (dp_src (nth (Z.to_nat (pc (d_vm d))) code dummy_dop)) O_CALL then
    match next_into code d with
    | Ok d' => next_over_loop fuel code (d_calls d) d'
    | Raise e => Raise e
    end
  else exec_slice (slice_at code (pc (d_vm d))) d.

(* shell: `next n` *)
Fixpoint next_n (fuel : nat) (code : dcode) (n : nat) (d : dstate) : res dstate :=
  match n with
  | O => Ok d
  | S k =>
      if d_finished code d then Ok d
      else match next_over fuel code d with
           | Ok d' => next_n fuel code k d'
           | Raise e => Raise e
           end
  end.

(* shell: `continue` *)
Fixpoint continue_loop (fuel : nat) (code : dcode) (d : dstate) : res dstate :=
  match fuel with
  | O => Raise OutOfFuel
  | S f =>
      if negb (d_finished code d) && negb (d_at_breakpoint code d) then
        match next_into code d with
        | Ok d' => continue_loop f code d'
        | Raise e => Raise e
        end
      else Ok d
  end.
Definition do_continue (fuel : nat) (code : dcode) (d : dstate) : res dstate :=
  match next_into code d with
  | Ok d' => continue_loop fuel code d'
  | Raise e => Raise e
  end.

(* Debugger.__init__ / reset(): machine reset, then the data statements *)
Definition d_init (data : list rop) (s : vm) : res vm :=
  match (vm_reset ;;; exec_all data) s with
  | Ok (_, s0) => Ok s0
  | Raise e => Raise e
  end.

(* ---- the session: undo history (Debugger.old chain + Shell.command_history) ---------------------- *)
Record session := mksess { s_cur : dstate; s_hist : list dstate }.

(* @mutates: save(), then run the handler *)
Definition mutate (f : dstate -> res dstate) (s : session) : res session :=
  match f (s_cur s) with
  | Ok d' => Ok (mksess d' (s_cur s :: s_hist s))
  | Raise e => Raise e
  end.
(* undo: "Nothing to undo." when there is no saved state *)
Definition undo (s : session) : session :=
  match s_hist s with
  | [] => s
  | d :: t => mksess d t
  end.

(* state-changing commands other than stepping (their effect on the debugger state) *)
Definition do_restart (data : list rop) (d : dstate) : res dstate :=
  match d_init data (d_vm d) with
  | Ok s0 => Ok (mkd s0 (d_bps d) 0)
  | Raise e => Raise e
  end.
Definition do_goto (pc' : Z) (d : dstate) : res dstate := Ok (mkd (upd_pc pc' (d_vm d)) (d_bps d) (d_calls d)).
Definition do_break (b : Z) (d : dstate) : res dstate :=
  Ok (mkd (d_vm d) (if existsb (Z.eqb b) (d_bps d) then d_bps d else d_bps d ++ [b]) (d_calls d)).
Definition do_clear (b : Z) (d : dstate) : res dstate :=
  Ok (mkd (d_vm d) (filter (fun x => negb (x =? b)) (d_bps d)) (d_calls d)).
Definition do_clear_all (d : dstate) : res dstate := Ok (mkd (d_vm d) [] (d_calls d)).
Inductive flagname := FlagS | FlagZ | FlagV | FlagC | FlagCB.
Definition set_flag (f : flagname) (b : bool) (s : vm) : vm :=
  match f with
  | FlagS => upd_f_s (PB b) s | FlagZ => upd_f_z (PB b) s | FlagV => upd_f_v (PB b) s
  | FlagC => upd_f_c (PB b) s | FlagCB => upd_f_cb (PB b) s
  end.
Definition do_flags (fs : list flagname) (b : bool) (d : dstate) : res dstate :=
  Ok (mkd (fold_left (fun s f => set_flag f b s) fs (d_vm d)) (d_bps d) (d_calls d)).
