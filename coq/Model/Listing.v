(* Listing.v — hand model of the text `hera assemble` prints (hera/assembler.py assemble_and_print: the code
   listing, one instruction word per line as four lower-case hex digits, and the Logisim data image: a line
   "<data_start-1>*0", a line with the next free cell in hex, then one line per data cell in hex without
   padding), and an independent strict reader of that format (what Logisim and `hera disassemble` make of the
   lines: `n*0` stands for n zero cells, any other line is one hexadecimal number).
   Texts are lists of code points.  Tied to the code by the C06 correspondence: `code_listing`/`data_listing`
   against the real `--stdout --code` / `--stdout --data` output character by character, `parse_hex` against
   `int(line, 16)` on the lines the reader accepts. *)
From Coq Require Import ZArith List Bool.
Import ListNotations.
Open Scope Z_scope.

Definition NL : Z := 10.
Definition STAR : Z := 42.
Definition ZERO : Z := 48.

(* "{:x}" of one digit *)
Definition hexdigit (d : Z) : Z := if d <? 10 then 48 + d else 87 + d.

(* bytes.hex() of the two bytes of an instruction word: always four digits *)
Definition hex4 (w : Z) : list Z :=
  [hexdigit (w / 4096 mod 16); hexdigit (w / 256 mod 16); hexdigit (w / 16 mod 16); hexdigit (w mod 16)].

(* leading zeroes dropped, the last digit kept *)
Fixpoint strip0 (s : list Z) : list Z :=
  match s with
  | c :: r => match r with
              | [] => s
              | _ :: _ => if c =? ZERO then strip0 r else s
              end
  | [] => []
  end.

(* "{:x}".format(w) for 0 <= w < 16^5 (a cell is below 2^16; the next-free-cell line can be 0x10000) *)
Definition hexmin (w : Z) : list Z := strip0 (hexdigit (w / 65536 mod 16) :: hex4 w).

(* "{}".format(n) for 0 <= n < 10^5 *)
Definition dec (n : Z) : list Z :=
  strip0 [48 + n / 10000 mod 10; 48 + n / 1000 mod 10; 48 + n / 100 mod 10; 48 + n / 10 mod 10; 48 + n mod 10].

(* "\n".join *)
Fixpoint join_lines (ls : list (list Z)) : list Z :=
  match ls with
  | [] => []
  | [l] => l
  | l :: r => l ++ NL :: join_lines r
  end.

(* the string `code` of assemble_and_print, from the instruction words *)
Definition code_listing (ws : list Z) : list Z := join_lines (map hex4 ws).

(* the string `data` of assemble_and_print, from data_start and the cells of the data segment *)
Definition data_listing (ds : Z) (cells : list Z) : list Z :=
  dec (ds - 1) ++ [STAR; ZERO; NL] ++ hexmin (Z.of_nat (length cells) + ds) ++ NL :: join_lines (map hexmin cells).

(* ---- the reader (independent of the printer) ---------------------------------------------------------- *)

(* the lines of a text; a text always has at least one line *)
Fixpoint lines (s : list Z) : list (list Z) :=
  match s with
  | [] => [[]]
  | c :: r => if c =? NL then [] :: lines r
              else match lines r with l :: ls => (c :: l) :: ls | [] => [[c]] end
  end.

Definition hexval (c : Z) : option Z :=
  if (48 <=? c) && (c <=? 57) then Some (c - 48)
  else if (97 <=? c) && (c <=? 102) then Some (c - 87)
  else if (65 <=? c) && (c <=? 70) then Some (c - 55)
  else None.

Fixpoint parse_hex_acc (s : list Z) (acc : Z) : option Z :=
  match s with
  | [] => Some acc
  | c :: r => match hexval c with Some d => parse_hex_acc r (16 * acc + d) | None => None end
  end.

(* int(line, 16) on a non-empty line of hex digits; anything else is not a number of the format *)
Definition parse_hex (s : list Z) : option Z :=
  match s with [] => None | _ :: _ => parse_hex_acc s 0 end.

Fixpoint parse_dec_acc (s : list Z) (acc : Z) : option Z :=
  match s with
  | [] => Some acc
  | c :: r => if (48 <=? c) && (c <=? 57) then parse_dec_acc r (10 * acc + (c - 48)) else None
  end.

Definition parse_dec (s : list Z) : option Z :=
  match s with [] => None | _ :: _ => parse_dec_acc s 0 end.

(* the text before and after the first '*' of a line *)
Fixpoint split_star (s : list Z) : option (list Z * list Z) :=
  match s with
  | [] => None
  | c :: r => if c =? STAR then Some ([], r)
              else match split_star r with Some (a, b) => Some (c :: a, b) | None => None end
  end.

(* what one line of a Logisim image contributes: a run "count*value" or one value *)
Definition image_line (l : list Z) : option (Z * Z) :=
  match split_star l with
  | Some (a, b) => match parse_dec a, parse_hex b with
                   | Some n, Some v => Some (n, v)
                   | _, _ => None
                   end
  | None => match parse_hex l with Some v => Some (1, v) | None => None end
  end.

(* the runs (count, value) of an image, line by line; an empty line contributes nothing; None when some
   other line is not of the format *)
Fixpoint image_runs (ls : list (list Z)) : option (list (Z * Z)) :=
  match ls with
  | [] => Some []
  | [] :: r => image_runs r
  | (_ :: _) as l :: r => match image_line l, image_runs r with
                          | Some x, Some xs => Some (x :: xs)
                          | _, _ => None
                          end
  end.

(* the cell at address a of the memory the runs describe (cells after the last run are 0) *)
Fixpoint cell_at (runs : list (Z * Z)) (a : Z) : Z :=
  match runs with
  | [] => 0
  | (n, v) :: r => if a <? n then v else cell_at r (a - n)
  end.

Definition read_image (text : list Z) : option (list (Z * Z)) := image_runs (lines text).

(* the words of a code listing: every line one hexadecimal number *)
Fixpoint read_words (ls : list (list Z)) : option (list Z) :=
  match ls with
  | [] => Some []
  | l :: r => match parse_hex l, read_words r with
              | Some w, Some ws => Some (w :: ws)
              | _, _ => None
              end
  end.

Definition read_code (text : list Z) : option (list Z) := read_words (lines text).

(* ---- the whole `hera assemble --stdout` text: "[DATA]", the data listing, "[CODE]", the code listing, both
   listings indented by textwrap.indent(.., "  ") (lines of white space only are left alone) ---------------- *)

Definition is_blank (l : list Z) : bool := forallb (fun c => (c =? 32) || (c =? 9)) l.
Definition indent_line (l : list Z) : list Z := if is_blank l then l else 32 :: 32 :: l.
Definition indent2 (s : list Z) : list Z := join_lines (map indent_line (lines s)).
Definition DATA_H : list Z := [91; 68; 65; 84; 65; 93].
Definition CODE_H : list Z := [91; 67; 79; 68; 69; 93].
Definition full_listing (ds : Z) (cells ws : list Z) : list Z :=
  DATA_H ++ NL :: indent2 (data_listing ds cells) ++ NL :: CODE_H ++ NL :: indent2 (code_listing ws).

(* a strict reader of the two sections *)
Fixpoint text_eqb (a b : list Z) : bool :=
  match a, b with
  | [], [] => true
  | x :: a', y :: b' => (x =? y) && text_eqb a' b'
  | _, _ => false
  end.
Definition strip2 (l : list Z) : list Z :=
  match l with a :: b :: r => if (a =? 32) && (b =? 32) then r else l | _ => l end.
(* the lines before the first line equal to h, and the lines after it *)
Fixpoint break_at (h : list Z) (ls : list (list Z)) : option (list (list Z) * list (list Z)) :=
  match ls with
  | [] => None
  | l :: r => if text_eqb l h then Some ([], r)
              else match break_at h r with Some (a, b) => Some (l :: a, b) | None => None end
  end.
Definition read_full (text : list Z) : option (list (Z * Z) * list Z) :=
  match lines text with
  | h :: rest =>
      if text_eqb h DATA_H then
        match break_at CODE_H rest with
        | Some (d, c) => match image_runs (map strip2 d), read_words (map strip2 c) with
                         | Some runs, Some ws => Some (runs, ws)
                         | _, _ => None
                         end
        | None => None
        end
      else None
  | [] => None
  end.


