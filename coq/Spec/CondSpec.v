(* CondSpec.v — conditional compilation as a C preprocessor with only HERA_PY defined does it,
   on well-nested structures.  HAND-WRITTEN SPECIFICATION.
   A structure is a tree; [render] is its text (a list of lines), [cpp] what must come out: text
   lines of kept regions unchanged, every directive and every discarded line blank, so that
   each remaining line keeps its line number. *)
From Coq Require Import ZArith List Bool.
From Hera.Model Require Import Lexer Ifdef.
Import ListNotations.

Inductive tree :=
| TNil
| TTxt (l : list Z) (rest : tree)
| TCond (dline : list Z) (th : tree) (eline : option (list Z)) (el : tree) (endline : list Z) (rest : tree).

Fixpoint render (t : tree) : list (list Z) :=
  match t with
  | TNil => []
  | TTxt l r => l :: render r
  | TCond d th e el en r =>
      d :: render th ++ (match e with Some eln => eln :: render el | None => [] end) ++ en :: render r
  end.

(* is the condition of a directive line true when only HERA_PY is defined? *)
Definition cond_true (k : lkind) : bool :=
  match k with
  | KIfdef w => codes_eqb w hera_py
  | KIfndef w => negb (codes_eqb w hera_py)
  | _ => false
  end.

Section Spec.
  Variable cls : list Z -> lkind.

  Fixpoint cpp (keep : bool) (t : tree) : list (list Z) :=
    match t with
    | TNil => []
    | TTxt l r => (if keep then l else []) :: cpp keep r
    | TCond d th e el en r =>
        [] :: cpp (keep && cond_true (cls d)) th
        ++ (match e with Some _ => [] :: cpp (keep && negb (cond_true (cls d))) el | None => [] end)
        ++ [] :: cpp keep r
    end.

  (* the lines of the tree are what they claim to be *)
  Fixpoint wf (t : tree) : Prop :=
    match t with
    | TNil => True
    | TTxt l r => cls l = KText /\ wf r
    | TCond d th e el en r =>
        (exists w, cls d = KIfdef w \/ cls d = KIfndef w) /\ wf th /\
        (match e with Some eln => cls eln = KElse /\ wf el | None => True end) /\
        cls en = KEndif /\ wf r
    end.
End Spec.
