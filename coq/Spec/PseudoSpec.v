(* PseudoSpec.v — what each pseudo-operation means as a whole (HERA 2.4 manual, hera-py doc
   strings).  HAND-WRITTEN SPECIFICATION.  Each clause gives the complete successor state in
   terms of the original state; [arch_eq] is equality of everything except hera-py's
   stack-pointer warning bookkeeping (stderr text, warning counter, warned-once latch), which
   the manual does not speak about. *)
From Coq Require Import ZArith List Bool String.
From Hera.Lib Require Import Py Machine Word16.
From Hera.Spec Require Import ISA.
Import ListNotations.
Open Scope Z_scope.

Definition arch_eq (a b : vm) : Prop :=
  regs a = regs b /\ pc a = pc b /\ dc a = dc b /\
  f_s a = f_s b /\ f_z a = f_z b /\ f_v a = f_v b /\ f_c a = f_c b /\ f_cb a = f_cb b /\
  mem a = mem b /\ halted a = halted b /\ ers a = ers b /\ op_count a = op_count b /\
  swarning_count a = swarning_count b /\ location a = location b /\ cfg a = cfg b.

(* the stack-pointer warning bookkeeping is untouched *)
Definition sp_quiet (a b : vm) : Prop :=
  out a = out b /\ warning_count a = warning_count b /\ warned_ovf a = warned_ovf b.

Definition adv (n : Z) (s : vm) : vm := upd_pc (pc s + n) s.

(* SET(Rd, v): v in Rd, no flag touched *)
Definition ps_SET (d v : Z) (s : vm) : vm := adv 2 (setreg d (v mod 65536) s).

(* flags "for x + 0" with the carry cleared: zero/sign of x, no overflow, no carry *)
Definition flags_of_value (x : Z) (s : vm) : vm :=
  upd_f_c (PB false) (upd_f_v (PB false) (set_zs x s)).
Definition ps_FLAGS (a : Z) (s : vm) : vm := adv 2 (flags_of_value (getreg s a) s).
Definition ps_SETRF (d v : Z) (s : vm) : vm :=
  adv 4 (flags_of_value (if d =? 0 then 0 else v mod 65536) (setreg d (v mod 65536) s)).

(* MOVE(Ra, Rb) is OR(Ra, Rb, R0): copies, and sets zero/sign for the value *)
Definition ps_MOVE (a b : Z) (s : vm) : vm :=
  adv 1 (setreg a (getreg s b) (set_zs (getreg s b) s)).

(* CMP(Ra, Rb): the flags of Ra - Rb with no borrow; no register written *)
Definition sub_flags (x y : Z) (s : vm) : vm :=
  upd_f_v (PB (negb (fits16s (sgn16 x - sgn16 y))))
    (upd_f_c (PB (0 <=? x - y)) (set_zs ((x - y) mod 65536) s)).
Definition ps_CMP (a b : Z) (s : vm) : vm := adv 2 (sub_flags (getreg s a) (getreg s b) s).
(* NEG(Rd, Ra): 0 - Ra, flags as for that subtraction *)
Definition ps_NEG (d a : Z) (s : vm) : vm :=
  adv 2 (setreg d ((0 - getreg s a) mod 65536) (sub_flags 0 (getreg s a) s)).
(* NOT(Rd, Ra), Ra <> Rt: bitwise complement; Rt (R11) is scratch and ends as 0xFFFF unless it
   is the destination; zero/sign set *)
Definition ps_NOT (d a : Z) (s : vm) : vm :=
  let r := 65535 - getreg s a in
  adv 3 (setreg d r (set_zs r (setreg 11 65535 s))).

Definition ps_CON (s : vm) : vm := adv 1 (upd_f_c (PB true) s).
Definition ps_COFF (s : vm) : vm := adv 1 (upd_f_c (PB false) s).
Definition ps_CBON (s : vm) : vm := adv 1 (upd_f_cb (PB true) s).
Definition ps_CCBOFF (s : vm) : vm := adv 1 (upd_f_cb (PB false) (upd_f_c (PB false) s)).
Definition ps_HALT (s : vm) : vm := upd_halted (PB true) s.
Definition ps_NOP (s : vm) : vm := adv 1 s.

(* B*(label): continue at the label if the condition holds, after the three instructions
   otherwise; Rt holds the label; no flag touched *)
Definition ps_BRANCH (c : cond) (l : Z) (s : vm) : vm :=
  let s1 := setreg 11 l s in
  if holds c s then upd_pc l s1 else adv 3 s1.
(* CALL(Ra, label) = CALL(Ra, PC_ret) after PC_ret := label; the return address is the
   instruction after the (three-instruction) expansion *)
Definition ps_CALL (a l : Z) (s : vm) : vm :=
  step_CALL a 13 (adv 2 (setreg 13 l s)).
