(* ExprSpec.v — what the debugger's expressions mean: ordinary integer arithmetic over literals,
   registers, symbols, the program counter and @-dereference, defined exactly when every literal
   and every intermediate result lies in -32768..65535 and no divisor is zero.
   HAND-WRITTEN SPECIFICATION (relational). *)
From Coq Require Import ZArith List Bool.
From Hera.Lib Require Import Py Machine.
From Hera.Spec Require Import ISA.
From Hera.Model Require Import MiniParser.
Import ListNotations.
Open Scope Z_scope.

Definition in16 (v : Z) : Prop := -32768 <= v < 65536.

Definition apply_op (o : binop) (x y : Z) : Z :=
  match o with OpAdd => x + y | OpSub => x - y | OpMul => x * y | OpDiv => x / y end.

Inductive evals (s : vm) (st : list (list Z * Z)) : expr -> Z -> Prop :=
| ev_int v : in16 v -> evals s st (EInt v) v
| ev_reg r : evals s st (EReg r) (getreg s r)
| ev_pc name : is_pc name = true -> evals s st (ESym name) (pc s)
| ev_sym name v : is_pc name = false -> sym_lookup st name = Some v -> evals s st (ESym name) v
| ev_mem a addr : evals s st a addr -> evals s st (EMem a) (mem_read (mem s) (addr mod 65536))
| ev_neg a x : evals s st a x -> in16 (- x) -> evals s st (ENeg a) (- x)
| ev_bin o l r x y : evals s st l x -> evals s st r y ->
    (o = OpDiv -> y <> 0) -> in16 (apply_op o x y) -> evals s st (EBin o l r) (apply_op o x y).
