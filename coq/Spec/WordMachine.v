(* WordMachine.v — an independent word-level HERA machine: it fetches 16-bit words, decodes them
   with the specification's arithmetic decoder (Spec/EncTable.decode_word) and applies the
   specification's step function (Spec/ISA.step).  HAND-WRITTEN SPECIFICATION; it knows nothing of
   hera-py's classes, bit patterns or preprocessor. *)
From Coq Require Import ZArith List Bool String.
From Hera.Lib Require Import Py Machine.
From Hera.Spec Require Import ISA EncTable.
Import ListNotations.
Open Scope Z_scope.

Definition wfetch (ws : list Z) (s : vm) : option Z :=
  if flag (halted s) then None
  else if (pc s <? 0) || (zlen ws <=? pc s) then None
  else Some (nth (Z.to_nat (pc s)) ws 0).

Fixpoint wrun (fuel : nat) (ws : list Z) (s : vm) : res vm :=
  match fuel with
  | O => Ok s
  | S f =>
      match wfetch ws s with
      | None => Ok s
      | Some w =>
          match decode_word w with
          | Some i => wrun f ws (step i s)
          | None => Raise (HERAError "not an instruction")
          end
      end
  end.

(* the machine as it is after loading a data image: all registers and flags clear *)
Definition image_state (c : settings) (first_cell : Z) (cells : list Z) : vm :=
  let fix pairs (a : Z) (l : list Z) : list (Z * Z) :=
      match l with [] => [] | v :: t => (a, v) :: pairs (a + 1) t end in
  mkvm (repeat 0 16) 0 0 (PB false) (PB false) (PB false) (PB false) (PB false)
       (mkmem 65536 (pairs first_cell cells)) (PB false) [] 0 (PB false) (PB false) (PB false) 0 0 PNone
       [] 0 [] c.
