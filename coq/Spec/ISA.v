(* ISA.v — the HERA 2.4 instruction set as a step function on machine states.
   HAND-WRITTEN SPECIFICATION, independent of hera-py's code: it is written from the
   HERA 2.4 definition and the `doc` text of hera-py's operation classes in the most
   direct arithmetic form (mod 2^16, signed readings, single bits).  It shares with the
   code model only the state record and the two canonical update helpers
   [list_set]/[mem_write].  Trusted: a wrong clause here gives a wrong theorem. *)
From Coq Require Import ZArith List Bool String.
From Hera.Lib Require Import Py Machine Word16.
Import ListNotations.
Open Scope Z_scope.

Definition getreg (s : vm) (i : Z) : Z := nth (Z.to_nat i) (regs s) 0.
Definition flag (v : pv) : bool := truthy v.

(* Writing a register: R0 is hard-wired to zero.  hera-py additionally warns, once per
   run, when the stack pointer (R15) is set at or beyond the start of the data segment. *)
Definition sp_warning : string := "stack has overflowed into data segment".
Definition setreg (i v : Z) (s : vm) : vm :=
  if i =? 0 then s
  else
    let s1 := upd_regs (list_set (regs s) (Z.to_nat i) v) s in
    if (i =? 15) && (data_start (cfg s) <=? v) && negb (flag (warned_ovf s)) then
      upd_warned_ovf (PB true)
        (upd_warning_count (warning_count s + 1)
           (upd_out (EWarn sp_warning [] (location s) :: out s) s1))
    else s1.

Definition set_zs (v : Z) (s : vm) : vm :=
  upd_f_s (PB (32768 <=? v)) (upd_f_z (PB (v =? 0)) s).
Definition next (s : vm) : vm := upd_pc (pc s + 1) s.

(* carry-in as used by ADD/LSL/LSR/ASL: the carry, unless blocked *)
Definition cin (s : vm) : Z := if flag (f_c s) && negb (flag (f_cb s)) then 1 else 0.
(* borrow-in as used by SUB: one, when the carry is off and not blocked *)
Definition bin (s : vm) : Z := if negb (flag (f_c s)) && negb (flag (f_cb s)) then 1 else 0.

Definition fits16s (x : Z) : bool := (-32768 <=? x) && (x <=? 32767).

(* ---- three-register ALU operations --------------------------------------------- *)
Definition alu3 (f : Z -> Z -> vm -> Z * vm) (d a b : Z) (s : vm) : vm :=
  let p := f (getreg s a) (getreg s b) s in       (* (result, state with C/V updated) *)
  next (setreg d (fst p) (set_zs (fst p) (snd p))).

Definition f_AND (x y : Z) (s : vm) := (Z.land x y, s).
Definition f_OR (x y : Z) (s : vm) := (Z.lor x y, s).
Definition f_XOR (x y : Z) (s : vm) := (Z.lxor x y, s).
Definition f_ADD (x y : Z) (s : vm) :=
  let sum := x + y + cin s in
  ((sum mod 65536),
   upd_f_v (PB (negb (fits16s (sgn16 x + sgn16 y + cin s))))
     (upd_f_c (PB (65536 <=? sum)) s)).
Definition f_SUB (x y : Z) (s : vm) :=
  let diff := x - y - bin s in
  ((diff mod 65536),
   upd_f_v (PB (negb (fits16s (sgn16 x - sgn16 y - bin s))))
     (upd_f_c (PB (0 <=? diff)) s)).
(* MUL: low word unless (sign on and carry-block off), then the high word of the signed
   32-bit product.  Carry/overflow in high-word mode are left open by the definition:
   [c] and [v] are parameters there. *)
Definition mul_high_mode (s : vm) : bool := flag (f_s s) && negb (flag (f_cb s)).
Definition f_MUL_low (x y : Z) (s : vm) :=
  (((x * y) mod 65536),
   upd_f_v (PB (negb (fits16s (sgn16 x * sgn16 y))))
     (upd_f_c (PB (65536 <=? x * y)) s)).
Definition f_MUL_high (c v : pv) (x y : Z) (s : vm) :=
  ((((sgn16 x * sgn16 y) mod 4294967296) / 65536), upd_f_v v (upd_f_c c s)).

Definition step_AND := alu3 f_AND.
Definition step_OR := alu3 f_OR.
Definition step_XOR := alu3 f_XOR.
Definition step_ADD := alu3 f_ADD.
Definition step_SUB := alu3 f_SUB.
Definition step_MUL_low := alu3 f_MUL_low.
Definition step_MUL_high c v := alu3 (f_MUL_high c v).

(* ---- two-register shifts ------------------------------------------------------- *)
Definition alu2 (f : Z -> vm -> Z * vm) (d b : Z) (s : vm) : vm :=
  let p := f (getreg s b) s in
  next (setreg d (fst p) (set_zs (fst p) (snd p))).

Definition f_LSL (x : Z) (s : vm) := (((2 * x + cin s) mod 65536), upd_f_c (PB (bit x 15)) s).
Definition f_LSR (x : Z) (s : vm) := ((x / 2 + 32768 * cin s), upd_f_c (PB (bit x 0)) s).
Definition f_LSL8 (x : Z) (s : vm) := (((256 * x) mod 65536), s).
Definition f_LSR8 (x : Z) (s : vm) := ((x / 256), s).
(* ASL = LSL, and overflow as ADD(Rd,Rb,Rb) would set it: the doubled value (plus the
   carry shifted in) does not fit, i.e. bits 15 and 14 differ *)
Definition f_ASL (x : Z) (s : vm) :=
  (((2 * x + cin s) mod 65536),
   upd_f_v (PB (negb (fits16s (sgn16 x + sgn16 x + cin s)))) (upd_f_c (PB (bit x 15)) s)).
(* ASR: half of the signed value rounded towards minus infinity; carry = bit shifted out *)
Definition f_ASR (x : Z) (s : vm) := (((sgn16 x / 2) mod 65536), upd_f_c (PB (bit x 0)) s).

Definition step_LSL := alu2 f_LSL.
Definition step_LSR := alu2 f_LSR.
Definition step_LSL8 := alu2 f_LSL8.
Definition step_LSR8 := alu2 f_LSR8.
Definition step_ASL := alu2 f_ASL.
Definition step_ASR := alu2 f_ASR.

(* ---- INC / DEC: like ADD / SUB with an immediate, ignoring the incoming carry ---- *)
Definition step_INC (d v : Z) (s : vm) : vm :=
  let x := getreg s d in
  let r := (x + v) mod 65536 in
  next (upd_f_c (PB (65536 <=? x + v))
          (upd_f_v (PB (negb (fits16s (sgn16 x + v))))
             (set_zs r (setreg d r s)))).
Definition step_DEC (d v : Z) (s : vm) : vm :=
  let x := getreg s d in
  let r := (x - v) mod 65536 in
  next (upd_f_c (PB (0 <=? x - v))
          (upd_f_v (PB (negb (fits16s (sgn16 x - v))))
             (set_zs r (setreg d r s)))).

(* ---- flags ------------------------------------------------------------------------ *)
Definition flags_word (s : vm) : Z :=
  Z.b2z (flag (f_s s)) + 2 * Z.b2z (flag (f_z s)) + 4 * Z.b2z (flag (f_v s))
  + 8 * Z.b2z (flag (f_c s)) + 16 * Z.b2z (flag (f_cb s)).
Definition step_SAVEF (d : Z) (s : vm) : vm := next (setreg d (flags_word s) s).
Definition set_flags5 (v : Z) (s : vm) : vm :=
  upd_f_cb (PB (bit v 4)) (upd_f_c (PB (bit v 3)) (upd_f_v (PB (bit v 2))
    (upd_f_z (PB (bit v 1)) (upd_f_s (PB (bit v 0)) s)))).
Definition step_RSTRF (d : Z) (s : vm) : vm := next (set_flags5 (getreg s d) s).
Definition step_FSET5 (v : Z) (s : vm) : vm := next (set_flags5 v s).
Definition step_FSET4 (v : Z) (s : vm) : vm :=
  next (upd_f_c (PB (bit v 3)) (upd_f_v (PB (bit v 2))
    (upd_f_z (PB (bit v 1)) (upd_f_s (PB (bit v 0)) s)))).
Definition step_FON (v : Z) (s : vm) : vm :=
  next (upd_f_cb (PB (flag (f_cb s) || bit v 4)) (upd_f_c (PB (flag (f_c s) || bit v 3))
    (upd_f_v (PB (flag (f_v s) || bit v 2)) (upd_f_z (PB (flag (f_z s) || bit v 1))
      (upd_f_s (PB (flag (f_s s) || bit v 0)) s))))).
Definition step_FOFF (v : Z) (s : vm) : vm :=
  next (upd_f_cb (PB (flag (f_cb s) && negb (bit v 4))) (upd_f_c (PB (flag (f_c s) && negb (bit v 3)))
    (upd_f_v (PB (flag (f_v s) && negb (bit v 2))) (upd_f_z (PB (flag (f_z s) && negb (bit v 1)))
      (upd_f_s (PB (flag (f_s s) && negb (bit v 0))) s))))).

(* ---- SETLO / SETHI: v is an 8-bit field written -128..255 ---------------------- *)
Definition byte_of (v : Z) : Z := v mod 256.
Definition sext8 (b : Z) : Z := if b <? 128 then b else b - 256.     (* signed reading *)
Definition step_SETLO (d v : Z) (s : vm) : vm :=
  next (setreg d ((sext8 (byte_of v)) mod 65536) s).
Definition step_SETHI (d v : Z) (s : vm) : vm :=
  next (setreg d (256 * byte_of v + getreg s d mod 256) s).

(* ---- memory ---------------------------------------------------------------------- *)
Definition ea (s : vm) (b o : Z) : Z := (getreg s b + o) mod 65536.
Definition step_LOAD (d o b : Z) (s : vm) : vm :=
  let r := mem_read (mem s) (ea s b o) in
  next (setreg d r (set_zs r s)).
Definition step_STORE (d o b : Z) (s : vm) : vm :=
  next (upd_mem (mem_write (mem s) (ea s b o) (getreg s d)) s).

(* ---- branches -------------------------------------------------------------------- *)
Inductive cond := cBR | cBL | cBGE | cBLE | cBG | cBULE | cBUG | cBZ | cBNZ | cBC | cBNC
                | cBS | cBNS | cBV | cBNV.
Definition holds (c : cond) (s : vm) : bool :=
  let S := flag (f_s s) in let Zf := flag (f_z s) in
  let V := flag (f_v s) in let C := flag (f_c s) in
  match c with
  | cBR => true
  | cBL => xorb S V
  | cBGE => negb (xorb S V)
  | cBLE => xorb S V || Zf
  | cBG => negb (xorb S V || Zf)
  | cBULE => negb C || Zf
  | cBUG => C && negb Zf
  | cBZ => Zf
  | cBNZ => negb Zf
  | cBC => C
  | cBNC => negb C
  | cBS => S
  | cBNS => negb S
  | cBV => V
  | cBNV => negb V
  end.
Definition step_regbranch (c : cond) (b : Z) (s : vm) : vm :=
  if holds c s then upd_pc (getreg s b) s else next s.
(* relative branch: the offset is the signed reading of an 8-bit field *)
Definition step_relbranch (c : cond) (o : Z) (s : vm) : vm :=
  if holds c s then upd_pc (pc s + sext8 (byte_of o)) s else next s.
(* hera-py: an unconditional relative branch to itself is the HALT idiom *)
Definition step_BRR (o : Z) (s : vm) : vm :=
  if sext8 (byte_of o) =? 0 then upd_halted (PB true) s
  else upd_pc (pc s + sext8 (byte_of o)) s.

(* ---- CALL / RETURN (operand registers distinct from each other and from FP=R14) -- *)
Definition swap_call (a b : Z) (s : vm) : vm :=
  let target := getreg s b in
  let ra := getreg s a in
  let fp := getreg s 14 in
  upd_pc target (setreg a fp (setreg 14 ra (setreg b (pc s + 1) s))).
Definition step_CALL (a b : Z) (s : vm) : vm :=
  swap_call a b (upd_ers (ers s ++ [(getreg s b, pc s + 1)]) s).
(* RETURN: with --warn-return-off nothing else; otherwise the call stack is popped and a
   warning is issued when the address returned to is not the one the matching CALL left *)
Definition return_warning (s : vm) (got : Z) : vm :=
  if warn_return_on (cfg s) then
    match rev (ers s) with
    | [] => upd_swarning_count (swarning_count s + 1)
              (upd_out (EWarn "incorrect return address (got {}, expected <nothing>)"
                          [PI got] (location s) :: out s) s)
    | (_, expected) :: t =>
        let s1 := upd_ers (rev t) s in
        if expected =? got then s1
        else upd_swarning_count (swarning_count s + 1)
               (upd_out (EWarn "incorrect return address (got {}, expected {})"
                           [PI got; PI expected] (location s) :: out s) s1)
    end
  else s.
Definition step_RETURN (a b : Z) (s : vm) : vm :=
  swap_call a b (return_warning s (getreg s b)).

(* ---- the instruction set as one datatype and one step function --------------------- *)
Inductive instr :=
| I_SETLO (d v : Z) | I_SETHI (d v : Z)
| I_AND (d a b : Z) | I_OR (d a b : Z) | I_XOR (d a b : Z)
| I_ADD (d a b : Z) | I_SUB (d a b : Z) | I_MUL (d a b : Z)
| I_INC (d v : Z) | I_DEC (d v : Z)
| I_LSL (d b : Z) | I_LSR (d b : Z) | I_LSL8 (d b : Z) | I_LSR8 (d b : Z)
| I_ASL (d b : Z) | I_ASR (d b : Z)
| I_SAVEF (d : Z) | I_RSTRF (d : Z)
| I_FON (v : Z) | I_FOFF (v : Z) | I_FSET5 (v : Z) | I_FSET4 (v : Z)
| I_LOAD (d o b : Z) | I_STORE (d o b : Z)
| I_B (c : cond) (b : Z)            (* register branch *)
| I_BREL (c : cond) (o : Z)         (* relative branch; I_BREL cBR is BRR *)
| I_CALL (a b : Z) | I_RETURN (a b : Z)
| I_SWI (v : Z) | I_RTI.

Definition reg_ok (r : Z) : bool := (0 <=? r) && (r <? 16).
Definition in_range (lo hi v : Z) : bool := (lo <=? v) && (v <? hi).

(* operands a checker-accepted real instruction can carry *)
Definition valid_instr (i : instr) : bool :=
  match i with
  | I_SETLO d v | I_SETHI d v => reg_ok d && in_range (-128) 256 v
  | I_AND d a b | I_OR d a b | I_XOR d a b | I_ADD d a b | I_SUB d a b | I_MUL d a b =>
      reg_ok d && reg_ok a && reg_ok b
  | I_INC d v | I_DEC d v => reg_ok d && in_range 1 65 v
  | I_LSL d b | I_LSR d b | I_LSL8 d b | I_LSR8 d b | I_ASL d b | I_ASR d b => reg_ok d && reg_ok b
  | I_SAVEF d | I_RSTRF d => reg_ok d
  | I_FON v | I_FOFF v | I_FSET5 v => in_range 0 32 v
  | I_FSET4 v => in_range 0 16 v
  | I_LOAD d o b | I_STORE d o b => reg_ok d && in_range 0 32 o && reg_ok b
  | I_B _ b => reg_ok b
  | I_BREL _ o => in_range (-128) 256 o
  | I_CALL a b | I_RETURN a b => reg_ok a && reg_ok b
  | I_SWI v => in_range 0 16 v
  | I_RTI => true
  end.

(* The points the definition leaves open (property C01): MUL's carry/overflow in
   high-word mode, CALL/RETURN whose operand registers alias each other or FP (R14).
   SWI/RTI have no interpreter semantics in hera-py at all. *)
Definition constrained (i : instr) (s : vm) : bool :=
  match i with
  | I_CALL a b | I_RETURN a b => negb (a =? b) && negb (a =? 14) && negb (b =? 14)
  | I_SWI _ | I_RTI => false
  | _ => true
  end.

(* [step]: MUL in high-word mode sets carry/overflow to [mc]/[mv] (unconstrained) *)
Definition step_with (mc mv : pv) (i : instr) (s : vm) : vm :=
  match i with
  | I_SETLO d v => step_SETLO d v s
  | I_SETHI d v => step_SETHI d v s
  | I_AND d a b => step_AND d a b s
  | I_OR d a b => step_OR d a b s
  | I_XOR d a b => step_XOR d a b s
  | I_ADD d a b => step_ADD d a b s
  | I_SUB d a b => step_SUB d a b s
  | I_MUL d a b => if mul_high_mode s then step_MUL_high mc mv d a b s else step_MUL_low d a b s
  | I_INC d v => step_INC d v s
  | I_DEC d v => step_DEC d v s
  | I_LSL d b => step_LSL d b s
  | I_LSR d b => step_LSR d b s
  | I_LSL8 d b => step_LSL8 d b s
  | I_LSR8 d b => step_LSR8 d b s
  | I_ASL d b => step_ASL d b s
  | I_ASR d b => step_ASR d b s
  | I_SAVEF d => step_SAVEF d s
  | I_RSTRF d => step_RSTRF d s
  | I_FON v => step_FON v s
  | I_FOFF v => step_FOFF v s
  | I_FSET5 v => step_FSET5 v s
  | I_FSET4 v => step_FSET4 v s
  | I_LOAD d o b => step_LOAD d o b s
  | I_STORE d o b => step_STORE d o b s
  | I_B c b => step_regbranch c b s
  | I_BREL cBR o => step_BRR o s
  | I_BREL c o => step_relbranch c o s
  | I_CALL a b => step_CALL a b s
  | I_RETURN a b => step_RETURN a b s
  | I_SWI _ | I_RTI => s
  end.
Definition step := step_with (PB false) (PB false).
