(* Signature.v — the documented operand rules of every HERA operation (HERA 2.4 manual and
   hera-py's doc strings), as a table.  HAND-WRITTEN SPECIFICATION, independent of the P tuples
   in hera/op.py. *)
From Coq Require Import ZArith List Bool String.
From Hera.Lib Require Import Py.
From Hera.Gen Require Import Ops.
From Hera.Model Require Import OpRep Preproc.
Import ListNotations.
Open Scope Z_scope.

Inductive kind :=
| KReg                      (* a register *)
| KRegOrLabel               (* a register or a code label *)
| KLabelName                (* a symbol being declared *)
| KStr                      (* a string literal *)
| KInt (lo hi : Z)          (* an integer lo <= v < hi, literal or constant *)
| KIntOrLabel (lo hi : Z).  (* ... or a label (a data label counts by its value) *)

Definition reg3 := [KReg; KReg; KReg].
Definition reg2 := [KReg; KReg].

Definition signature (o : opname) : list kind :=
  match o with
  | O_SETLO | O_SETHI => [KReg; KInt (-128) 256]
  | O_SET | O_SETRF => [KReg; KIntOrLabel (-32768) 65536]
  | O_ADD | O_SUB | O_MUL | O_AND | O_OR | O_XOR => reg3
  | O_INC | O_DEC => [KReg; KInt 1 65]
  | O_LSL | O_LSR | O_LSL8 | O_LSR8 | O_ASL | O_ASR | O_MOVE | O_CMP | O_NEG | O_NOT => reg2
  | O_SAVEF | O_RSTRF | O_FLAGS | O_PRINT_REG => [KReg]
  | O_FON | O_FOFF | O_FSET5 => [KInt 0 32]
  | O_FSET4 | O_SWI => [KInt 0 16]
  | O_LOAD | O_STORE => [KReg; KInt 0 32; KReg]
  | O_BR | O_BL | O_BGE | O_BLE | O_BG | O_BULE | O_BUG | O_BZ | O_BNZ | O_BC | O_BNC | O_BS | O_BNS
  | O_BV | O_BNV => [KRegOrLabel]
  | O_BRR | O_BLR | O_BGER | O_BLER | O_BGR | O_BULER | O_BUGR | O_BZR | O_BNZR | O_BCR | O_BNCR | O_BSR
  | O_BNSR | O_BVR | O_BNVR => [KIntOrLabel (-128) 256]
  | O_CALL => [KReg; KRegOrLabel]
  | O_RETURN => reg2
  | O_RTI | O_CON | O_COFF | O_CBON | O_CCBOFF | O_HALT | O_NOP => []
  | O_OPCODE | O_DSKIP => [KInt 0 65536]
  | O_INTEGER => [KInt (-32768) 65536]
  | O_LP_STRING | O_PRINT | O_PRINTLN | O_uuEVAL => [KStr]
  | O_CONSTANT => [KLabelName; KInt (-32768) 65536]
  | O_LABEL | O_DLABEL => [KLabelName]
  end.

Definition kind_of_ptype (p : ptype) : kind :=
  match p with
  | P_REGISTER => KReg
  | P_REGISTER_OR_LABEL => KRegOrLabel
  | P_STRING => KStr
  | P_LABEL_TYPE => KLabelName
  | P_I16_OR_LABEL => KIntOrLabel (-32768) 65536
  | P_I8_OR_LABEL => KIntOrLabel (-128) 256
  | P_RANGE lo hi => KInt lo hi
  end.

Definition in_rng (lo hi v : Z) : Prop := lo <= v < hi.

(* when an operand conforms to a kind, given what the symbols in scope stand for *)
Definition arg_ok (k : kind) (t : token) (st : symtab) : Prop :=
  match k with
  | KReg => t_type t = T_REGISTER
  | KRegOrLabel =>
      t_type t = T_REGISTER \/
      (t_type t = T_SYMBOL /\ exists v, dict_get st (t_val t) = Some (SLabel v))
  | KLabelName => t_type t = T_SYMBOL
  | KStr => t_type t = T_STRING
  | KInt lo hi =>
      (t_type t = T_INT /\ exists v, t_val t = PI v /\ in_rng lo hi v) \/
      (t_type t = T_SYMBOL /\ exists v, dict_get st (t_val t) = Some (SConstant v) /\ in_rng lo hi v)
  | KIntOrLabel lo hi =>
      (t_type t = T_INT /\ exists v, t_val t = PI v /\ in_rng lo hi v) \/
      (t_type t = T_SYMBOL /\
       ((exists v, dict_get st (t_val t) = Some (SConstant v) /\ in_rng lo hi v) \/
        (exists v, dict_get st (t_val t) = Some (SDataLabel v) /\ in_rng lo hi v) \/
        (exists v, dict_get st (t_val t) = Some (SLabel v))))
  end.

(* integer tokens as the parser builds them carry an int *)
Definition tok_parsed (t : token) : Prop :=
  match t_type t with T_INT => exists v, t_val t = PI v | _ => True end.
