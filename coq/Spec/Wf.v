(* Wf.v — what it means for a machine state to be a well-formed 16-bit HERA machine
   (property C02), as a predicate on the state record.  Hand-written specification. *)
From Coq Require Import ZArith List Bool String.
From Hera.Lib Require Import Py Machine Word16.
Import ListNotations.
Open Scope Z_scope.

Definition reg_ix (i : Z) : Prop := 0 <= i < 16.

Definition wf_regs (r : list Z) : Prop :=
  List.length r = 16%nat /\ Forall word r /\ nth 0 r 0 = 0.

(* memory: at most 2^16 cells, every cell a 16-bit word, every stored key in range *)
Definition wf_mem (m : pmem) : Prop :=
  0 <= mlen m <= 65536 /\
  Forall (fun kv => 0 <= fst kv < mlen m /\ word (snd kv)) (cells m).

Record wf_vm (s : vm) : Prop := mkwf {
  wf_r : wf_regs (regs s);
  wf_fs : is_bool (f_s s);
  wf_fz : is_bool (f_z s);
  wf_fv : is_bool (f_v s);
  wf_fc : is_bool (f_c s);
  wf_fcb : is_bool (f_cb s);
  wf_halted : is_bool (halted s);
  wf_wovf : is_bool (warned_ovf s);
  wf_m : wf_mem (mem s);
}.

(* executable version, used by the search / correspondence side *)
Definition wf_regsb (r : list Z) : bool :=
  (Nat.eqb (List.length r) 16) && forallb wordb r && (nth 0 r 0 =? 0).
Definition wf_memb (m : pmem) : bool :=
  (0 <=? mlen m) && (mlen m <=? 65536) &&
  forallb (fun kv => (0 <=? fst kv) && (fst kv <? mlen m) && wordb (snd kv)) (cells m).
Definition wf_vmb (s : vm) : bool :=
  wf_regsb (regs s) && is_boolb (f_s s) && is_boolb (f_z s) && is_boolb (f_v s)
  && is_boolb (f_c s) && is_boolb (f_cb s) && is_boolb (halted s) && is_boolb (warned_ovf s)
  && wf_memb (mem s).
