(* EncTable.v — the HERA 2.4 instruction encoding table as arithmetic on the 16-bit word.
   HAND-WRITTEN SPECIFICATION, independent of hera-py's BITV strings. *)
From Coq Require Import ZArith List Bool.
From Hera.Lib Require Import Word16.
From Hera.Spec Require Import ISA.
Import ListNotations.
Open Scope Z_scope.

(* condition field of the branch instructions *)
Definition cond_code (c : cond) : Z :=
  match c with
  | cBR => 0 | cBL => 2 | cBGE => 3 | cBLE => 4 | cBG => 5 | cBULE => 6 | cBUG => 7
  | cBZ => 8 | cBNZ => 9 | cBC => 10 | cBNC => 11 | cBS => 12 | cBNS => 13 | cBV => 14 | cBNV => 15
  end.

Definition word_of (i : instr) : Z :=
  match i with
  | I_SETLO d v => 57344 + 256 * d + v mod 256          (* 1110 dddd vvvv vvvv *)
  | I_SETHI d v => 61440 + 256 * d + v mod 256          (* 1111 dddd vvvv vvvv *)
  | I_AND d a b => 32768 + 256 * d + 16 * a + b         (* 1000 dddd aaaa bbbb *)
  | I_OR d a b => 36864 + 256 * d + 16 * a + b          (* 1001 *)
  | I_ADD d a b => 40960 + 256 * d + 16 * a + b         (* 1010 *)
  | I_SUB d a b => 45056 + 256 * d + 16 * a + b         (* 1011 *)
  | I_MUL d a b => 49152 + 256 * d + 16 * a + b         (* 1100 *)
  | I_XOR d a b => 53248 + 256 * d + 16 * a + b         (* 1101 *)
  | I_INC d v => 12416 + 256 * d + (v - 1)              (* 0011 dddd 10vv vvvv, field = v-1 *)
  | I_DEC d v => 12480 + 256 * d + (v - 1)              (* 0011 dddd 11vv vvvv *)
  | I_LSL d b => 12288 + 256 * d + b                    (* 0011 dddd 0000 bbbb *)
  | I_LSR d b => 12304 + 256 * d + b                    (* 0011 dddd 0001 bbbb *)
  | I_LSL8 d b => 12320 + 256 * d + b                   (* 0011 dddd 0010 bbbb *)
  | I_LSR8 d b => 12336 + 256 * d + b                   (* 0011 dddd 0011 bbbb *)
  | I_ASL d b => 12352 + 256 * d + b                    (* 0011 dddd 0100 bbbb *)
  | I_ASR d b => 12368 + 256 * d + b                    (* 0011 dddd 0101 bbbb *)
  | I_SAVEF d => 12400 + 256 * d                        (* 0011 dddd 0111 0000 *)
  | I_RSTRF d => 12408 + 256 * d                        (* 0011 dddd 0111 1000 *)
  | I_FON v => 12384 + 256 * (v / 16) + v mod 16        (* 0011 000v 0110 vvvv *)
  | I_FSET5 v => 13408 + 256 * (v / 16) + v mod 16      (* 0011 010v 0110 vvvv *)
  | I_FOFF v => 14432 + 256 * (v / 16) + v mod 16       (* 0011 100v 0110 vvvv *)
  | I_FSET4 v => 15456 + v                              (* 0011 1100 0110 vvvv *)
  | I_LOAD d o b => 16384 + 4096 * (o / 16) + 256 * d + 16 * (o mod 16) + b   (* 010o dddd oooo bbbb *)
  | I_STORE d o b => 24576 + 4096 * (o / 16) + 256 * d + 16 * (o mod 16) + b  (* 011o dddd oooo bbbb *)
  | I_B c b => 4096 + 256 * cond_code c + b             (* 0001 cccc 0000 bbbb *)
  | I_BREL c o => 256 * cond_code c + o mod 256         (* 0000 cccc oooo oooo *)
  | I_CALL a b => 8192 + 16 * a + b                     (* 0010 0000 aaaa bbbb *)
  | I_RETURN a b => 8448 + 16 * a + b                   (* 0010 0001 aaaa bbbb *)
  | I_SWI v => 8704 + v                                 (* 0010 0010 0000 vvvv *)
  | I_RTI => 8960                                       (* 0010 0011 0000 0000 *)
  end.

(* a byte operand written -128..255 denotes its 8-bit pattern: one instruction per pattern *)
Definition canon (i : instr) : instr :=
  match i with
  | I_SETLO d v => I_SETLO d (v mod 256)
  | I_SETHI d v => I_SETHI d (v mod 256)
  | I_BREL c o => I_BREL c (o mod 256)
  | _ => i
  end.

(* ---- every valid instruction, enumerated ------------------------------------------------- *)
Definition regs16 : list Z := zrange 0 16.
Definition all_conds : list cond :=
  [cBR; cBL; cBGE; cBLE; cBG; cBULE; cBUG; cBZ; cBNZ; cBC; cBNC; cBS; cBNS; cBV; cBNV].

Definition prod2 {A} (f : Z -> Z -> A) (l1 l2 : list Z) : list A :=
  flat_map (fun x => map (f x) l2) l1.
Definition prod3 {A} (f : Z -> Z -> Z -> A) (l1 l2 l3 : list Z) : list A :=
  flat_map (fun x => flat_map (fun y => map (f x y) l3) l2) l1.

Definition all_valid_instrs : list instr :=
  prod2 I_SETLO regs16 (zrange (-128) 256) ++ prod2 I_SETHI regs16 (zrange (-128) 256)
  ++ prod3 I_AND regs16 regs16 regs16 ++ prod3 I_OR regs16 regs16 regs16
  ++ prod3 I_XOR regs16 regs16 regs16 ++ prod3 I_ADD regs16 regs16 regs16
  ++ prod3 I_SUB regs16 regs16 regs16 ++ prod3 I_MUL regs16 regs16 regs16
  ++ prod2 I_INC regs16 (zrange 1 65) ++ prod2 I_DEC regs16 (zrange 1 65)
  ++ prod2 I_LSL regs16 regs16 ++ prod2 I_LSR regs16 regs16 ++ prod2 I_LSL8 regs16 regs16
  ++ prod2 I_LSR8 regs16 regs16 ++ prod2 I_ASL regs16 regs16 ++ prod2 I_ASR regs16 regs16
  ++ map I_SAVEF regs16 ++ map I_RSTRF regs16
  ++ map I_FON (zrange 0 32) ++ map I_FOFF (zrange 0 32) ++ map I_FSET5 (zrange 0 32)
  ++ map I_FSET4 (zrange 0 16)
  ++ prod3 I_LOAD regs16 (zrange 0 32) regs16 ++ prod3 I_STORE regs16 (zrange 0 32) regs16
  ++ flat_map (fun c => map (I_B c) regs16) all_conds
  ++ flat_map (fun c => map (I_BREL c) (zrange (-128) 256)) all_conds
  ++ prod2 I_CALL regs16 regs16 ++ prod2 I_RETURN regs16 regs16
  ++ map I_SWI (zrange 0 16) ++ [I_RTI].

(* ---- decoding by arithmetic on the four nibbles (independent of any bit-pattern string) ------ *)
Definition cond_of_code (k : Z) : option cond :=
  if k =? 0 then Some cBR else if k =? 2 then Some cBL else if k =? 3 then Some cBGE
  else if k =? 4 then Some cBLE else if k =? 5 then Some cBG else if k =? 6 then Some cBULE
  else if k =? 7 then Some cBUG else if k =? 8 then Some cBZ else if k =? 9 then Some cBNZ
  else if k =? 10 then Some cBC else if k =? 11 then Some cBNC else if k =? 12 then Some cBS
  else if k =? 13 then Some cBNS else if k =? 14 then Some cBV else if k =? 15 then Some cBNV
  else None.

Definition decode_word (w : Z) : option instr :=
  if (w <? 0) || (65536 <=? w) then None else
  let n3 := w / 4096 in let n2 := (w / 256) mod 16 in let n1 := (w / 16) mod 16 in let n0 := w mod 16 in
  let lowb := w mod 256 in
  if n3 =? 14 then Some (I_SETLO n2 lowb)
  else if n3 =? 15 then Some (I_SETHI n2 lowb)
  else if n3 =? 8 then Some (I_AND n2 n1 n0)
  else if n3 =? 9 then Some (I_OR n2 n1 n0)
  else if n3 =? 10 then Some (I_ADD n2 n1 n0)
  else if n3 =? 11 then Some (I_SUB n2 n1 n0)
  else if n3 =? 12 then Some (I_MUL n2 n1 n0)
  else if n3 =? 13 then Some (I_XOR n2 n1 n0)
  else if n3 =? 3 then
    if 192 <=? lowb then Some (I_DEC n2 (lowb - 192 + 1))
    else if 128 <=? lowb then Some (I_INC n2 (lowb - 128 + 1))
    else if n1 =? 0 then Some (I_LSL n2 n0)
    else if n1 =? 1 then Some (I_LSR n2 n0)
    else if n1 =? 2 then Some (I_LSL8 n2 n0)
    else if n1 =? 3 then Some (I_LSR8 n2 n0)
    else if n1 =? 4 then Some (I_ASL n2 n0)
    else if n1 =? 5 then Some (I_ASR n2 n0)
    else if n1 =? 7 then (if n0 =? 0 then Some (I_SAVEF n2) else if n0 =? 8 then Some (I_RSTRF n2) else None)
    else (* n1 = 6: flag instructions, selected by the upper three bits of n2 *)
      if n2 / 2 =? 0 then Some (I_FON (16 * (n2 mod 2) + n0))
      else if n2 / 2 =? 2 then Some (I_FSET5 (16 * (n2 mod 2) + n0))
      else if n2 / 2 =? 4 then Some (I_FOFF (16 * (n2 mod 2) + n0))
      else if n2 =? 12 then Some (I_FSET4 n0)
      else None
  else if (n3 =? 4) || (n3 =? 5) then Some (I_LOAD n2 (16 * (n3 - 4) + n1) n0)
  else if (n3 =? 6) || (n3 =? 7) then Some (I_STORE n2 (16 * (n3 - 6) + n1) n0)
  else if n3 =? 1 then
    (if n1 =? 0 then match cond_of_code n2 with Some c => Some (I_B c n0) | None => None end else None)
  else if n3 =? 0 then
    match cond_of_code n2 with Some c => Some (I_BREL c lowb) | None => None end
  else (* n3 = 2 *)
    if n2 =? 0 then Some (I_CALL n1 n0)
    else if n2 =? 1 then Some (I_RETURN n1 n0)
    else if (n2 =? 2) && (n1 =? 0) then Some (I_SWI n0)
    else if (n2 =? 3) && (lowb =? 0) then Some I_RTI
    else None.
