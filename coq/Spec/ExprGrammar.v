(* ExprGrammar.v — the textbook stratified grammar of arithmetic expressions, with the parse tree
   each derivation denotes.  HAND-WRITTEN SPECIFICATION.

     sum     ::= product (('+' | '-') product)*         left-associative
     product ::= unary   (('*' | '/') unary)*           left-associative, binds tighter
     unary   ::= INT | REGISTER | SYMBOL | '(' sum ')' | '-' unary | '@' unary

   [Sum ts e r]: the token list ts starts with a sum denoting the tree e, followed by r (and r
   does not continue the sum).  *)
From Coq Require Import ZArith List Bool.
From Hera.Model Require Import MiniParser.
Import ListNotations.

Definition is_mul (o : binop) : bool := match o with OpMul | OpDiv => true | _ => false end.
Definition is_add (o : binop) : bool := match o with OpAdd | OpSub => true | _ => false end.
Definition starts_mul (ts : list etok) : bool := match cur ts with E_OP o => is_mul o | _ => false end.
Definition starts_add (ts : list etok) : bool := match cur ts with E_OP o => is_add o | _ => false end.

Inductive Unary : list etok -> expr -> list etok -> Prop :=
| U_int v r : Unary (E_INT (Some v) :: r) (EInt v) r
| U_reg x r : Unary (E_REG (Some x) :: r) (EReg x) r
| U_sym s r : Unary (E_SYM s :: r) (ESym s) r
| U_paren ts e r : Sum ts e (E_RP :: r) -> Unary (E_LP :: ts) e r
| U_neg ts e r : Unary ts e r -> Unary (E_OP OpSub :: ts) (ENeg e) r
| U_at ts e r : Unary ts e r -> Unary (E_AT :: ts) (EMem e) r
(* acc (op unary)* : folds to the left *)
with ProdTail : expr -> list etok -> expr -> list etok -> Prop :=
| PT_done acc ts : starts_mul ts = false -> ProdTail acc ts acc ts
| PT_more acc o ts u ts' e r : is_mul o = true -> Unary ts u ts' -> ProdTail (EBin o acc u) ts' e r ->
    ProdTail acc (E_OP o :: ts) e r
with Prod : list etok -> expr -> list etok -> Prop :=
| P_intro ts u ts' e r : Unary ts u ts' -> ProdTail u ts' e r -> Prod ts e r
with SumTail : expr -> list etok -> expr -> list etok -> Prop :=
| ST_done acc ts : starts_add ts = false -> starts_mul ts = false -> SumTail acc ts acc ts
| ST_more acc o ts p ts' e r : is_add o = true -> Prod ts p ts' -> SumTail (EBin o acc p) ts' e r ->
    SumTail acc (E_OP o :: ts) e r
with Sum : list etok -> expr -> list etok -> Prop :=
| S_intro ts p ts' e r : Prod ts p ts' -> SumTail p ts' e r -> Sum ts e r.

(* the standard rendering of a tree with the fewest parentheses: the left operand of an operator
   needs them only if it binds looser, the right operand if it does not bind tighter; the operand
   of a prefix operator if it is a binary expression *)
Definition level (e : expr) : nat :=
  match e with EBin o _ _ => if is_add o then 0 else 1 | _ => 2 end.
Definition parens (b : bool) (ts : list etok) : list etok := if b then E_LP :: ts ++ [E_RP] else ts.
Definition oplevel (o : binop) : nat := if is_add o then 0 else 1.

Fixpoint render (e : expr) : list etok :=
  match e with
  | EInt v => [E_INT (Some v)]
  | EReg x => [E_REG (Some x)]
  | ESym s => [E_SYM s]
  | EMem a => E_AT :: parens (Nat.ltb (level a) 2) (render a)
  | ENeg a => E_OP OpSub :: parens (Nat.ltb (level a) 2) (render a)
  | EBin o l r =>
      parens (Nat.ltb (level l) (oplevel o)) (render l) ++ E_OP o ::
      parens (Nat.leb (level r) (oplevel o)) (render r)
  end.
